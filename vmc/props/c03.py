"""C03 - simplification passes preserve the function, the interface and their argument.

E1 over F(n,k,A) x output policies x transformers (five pass instances, cleanup light and
heavy, every two-pass pipe a|b); oracle: reference truth table row by row, interface
lists, argument abstraction unchanged, size not larger, result well formed.
"""

import itertools

from vmc import refmodel, space
from vmc.engine import guarded

ID = 'C03'

UNARY_FAMILY = space.alphabet('NOT', 'IFF', 'LNOT', 'RNOT', 'LIFF', 'RIFF', 'AND', 'GT')
UNARY4 = space.alphabet('NOT', 'IFF', 'LNOT', 'RIFF', 'AND')
CHAIN = space.alphabet('NOT', 'LNOT', 'IFF')
CHAIN1 = space.alphabet('NOT', 'IFF')
ALPHAS = {'SU': space.S + space.U, 'CHAIN1': CHAIN1, 'CHAIN': CHAIN, 'FULL': space.FULL, 'FULL_NO3': space.FULL_NO3, 'UNARY': UNARY_FAMILY, 'UNARY4': UNARY4}


def singles():
    from cirbo.minimization.simplification import (
        MergeDuplicateGates,
        MergeEquivalentGates,
        MergeUnaryOperators,
        RemoveRedundantGates,
    )

    return [
        ('RRG', RemoveRedundantGates()),
        ('RRGi', RemoveRedundantGates(allow_inputs_removal=True)),
        ('MUO', MergeUnaryOperators()),
        ('MDG', MergeDuplicateGates()),
        ('MEG', MergeEquivalentGates()),
    ]


_T = None


def transformers():
    """name -> (callable(circuit) -> circuit, removes_inputs)"""
    global _T
    if _T is None:
        from cirbo.minimization.simplification import cleanup

        s = singles()
        t = {}
        for name, tr in s:
            t[name] = (tr.transform, name == 'RRGi')
        t['cleanup'] = (lambda c: cleanup(c), False)
        t['cleanupH'] = (lambda c: cleanup(c, use_heavy=True), False)
        for na, a in s:
            for nb, b in s:
                comp = a | b
                t[f'{na}|{nb}'] = (comp.transform, 'RRGi' in (na, nb))
        _T = t
    return _T


SINGLE_NAMES = ('RRG', 'RRGi', 'MUO', 'MDG', 'MEG', 'cleanup', 'cleanupH')


def core_policies(n, k, gates):
    p = n + k
    pol = [()] + [(i,) for i in range(p)]
    if p:
        last = p - 1
        pol += [(last, last), (last, 0), (0, last)]
    s = tuple(space.sinks(n, gates))
    if s not in pol:
        pol.append(s)
    return list(dict.fromkeys(pol))


LONG_PATTERNS = {
    'not': [('NOT', 'p')],
    'iff-not-not': [('IFF', 'p'), ('NOT', 'p'), ('NOT', 'p')],
    'lnot-riff': [('LNOT', 'p', 'x1'), ('RIFF', 'x1', 'p')],
    'not-and': [('NOT', 'p'), ('AND', 'p', 'x1')],
    'dup-xor': [('XOR', 'p', 'x1'), ('XOR', 'x1', 'p')],
}


def long_chain(pat, L):
    """(circuit, net): a chain of L gates over two inputs following LONG_PATTERNS[pat]; outputs: the last
    gate, the middle gate and x0."""
    from cirbo.core.circuit import Circuit, gate as G

    c = Circuit()
    c.add_inputs(['x0', 'x1'])
    prev = 'x0'
    steps = LONG_PATTERNS[pat]
    labs = []
    for i in range(L):
        t, *ops = steps[i % len(steps)]
        ops = tuple(prev if o == 'p' else o for o in ops)
        lab = f'c{i}'
        c.emplace_gate(lab, getattr(G, t), ops)
        labs.append(lab)
        prev = lab
    c.set_outputs([labs[-1], labs[L // 2], 'x0'])
    return c


class degenerate_checksums:
    """E3 deviation: every non-cryptographic checksum the standard library offers (zlib.crc32, zlib.adler32,
    binascii.crc32, binascii.crc_hqx) answers 0.  Collisions of these checksums exist and are constructible
    for tables of six or more inputs, so a pass may use them to bucket candidates but never as proof of
    equality: under this environment a correct pass still preserves the function."""

    def __enter__(self):
        import binascii
        import zlib

        self.saved = [(zlib, 'crc32', zlib.crc32), (zlib, 'adler32', zlib.adler32), (binascii, 'crc32', binascii.crc32), (binascii, 'crc_hqx', binascii.crc_hqx)]
        for mod, name, _ in self.saved:
            setattr(mod, name, lambda *a, **k: 0)
        return self

    def __exit__(self, *exc):
        for mod, name, fn in self.saved:
            setattr(mod, name, fn)
        return False


def check_long(acc, pat, L):
    c = long_chain(pat, L)
    net = refmodel.abstract(c)
    ref = net.tables()
    acc.states += 1
    for tname in SINGLE_NAMES + ('MUO|MDG', 'MDG|MUO'):
        fn, removes = transformers()[tname]
        case = {'long_chain': pat, 'length': L, 'transformer': tname}
        acc.transitions += 1
        acc.traces += 1
        try:
            r = fn(c)
        except Exception as e:  # noqa: BLE001
            acc.violation(f'{tname}/raises-{type(e).__name__}', case, repr(e)[:200], {'long': True})
            continue
        rnet = refmodel.abstract(r)
        if refmodel.abstract(c).key() != net.key():
            acc.violation(f'{tname}/argument-modified', case, '', {'long': True})
        if len(rnet.outputs) != 3 or (not removes and rnet.inputs != net.inputs):
            acc.violation(f'{tname}/interface', case, f'{rnet.inputs} {len(rnet.outputs)}', {'long': True})
            continue
        iv = refmodel.input_vectors_cached(2)
        pos = {l: i for i, l in enumerate(net.inputs)}
        try:
            rt = rnet.tables([iv[pos[l]] for l in rnet.inputs], 15)
        except Exception as e:  # noqa: BLE001
            acc.violation(f'{tname}/result-not-evaluable', case, repr(e)[:200], {'long': True})
            continue
        if [rt[o] for o in rnet.outputs] != [ref[o] for o in net.outputs]:
            acc.violation(f'{tname}/function-changed', case, '', {'long': True})
        if rnet.size() > net.size():
            acc.violation(f'{tname}/result-larger', case, '', {'long': True})
        acc.outcome('shape', (tname, 'long', pat, rnet.size() < net.size()))
    acc.sample({'long_chain': pat, 'length': L, 'transformer': 'MUO'})


def plan(tier):
    t = []
    for pat in LONG_PATTERNS:
        for L in (60, 700, 1600) if tier == 'quick' else (60, 700, 1600, 3300, 6000):
            t.append({'kind': 'long', 'pat': pat, 'L': L})

    def fam(n, k, a, split, tnames, pol):
        for tk in space.tasks(n, k, ALPHAS[a], split):
            tk.update(alpha=a, tnames=tnames, pol=pol)
            t.append(tk)

    for n in (9, 10, 12) if tier == 'quick' else (9, 10, 11, 12, 13):
        for first in sorted({0, 1, 2, 7, 8, 9, n - 2, n - 1} & set(range(n))):
            t.append({'kind': 'wideif', 'n': n, 'first': first, 'alpha': 'SU', 'tnames': 'single'})
    for tk in space.tasks(2, 2, ALPHAS['SU'], 1):
        tk.update(alpha='SU', tnames='single', pol='core', kind='checksum')
        t.append(tk)
    fam(0, 1, 'FULL', 0, 'all', 'all')
    fam(1, 1, 'FULL', 0, 'all', 'all')
    fam(1, 2, 'FULL', 1, 'all', 'all')
    fam(2, 1, 'FULL', 1, 'all', 'all')
    fam(2, 2, 'FULL', 1, 'single', 'core' if tier == 'quick' else 'all')
    fam(3, 1, 'FULL', 1, 'single', 'all')
    fam(1, 4, 'CHAIN', 2, 'unary', 'last')
    for k in (5, 6):
        fam(1, k, 'CHAIN1', 2, 'unary', 'last')
    fam(2, 3, 'UNARY', 2, 'unary', 'last' if tier == 'quick' else 'core')
    if tier == 'thorough':
        fam(2, 2, 'FULL', 1, 'pairs', 'core')
        fam(3, 2, 'FULL', 1, 'single', 'core')
        fam(2, 3, 'FULL_NO3', 2, 'single', 'last')
        fam(2, 4, 'UNARY4', 2, 'unary', 'last')
    return t


def describe(tier):
    return {
        'rule': 'wideif: 9..12 (13) inputs of which 2-3 are read, every ordered choice of positions from {0,1,2,7,8,9,n-2,n-1} with one >= 8, through input-removing passes and pipes; E3 checksum deviation: F(2,2,symmetric+unary) x core output policies x every single pass with zlib/binascii checksums answering 0 (a pass may bucket by checksum, never conclude equality from it); long: chains of 60..1600 (thorough 6000) gates in five unary/binary patterns through every single pass and two pipes; E1: every circuit of F(n,k,A) (for n+k<=3 and the unary/chain families also with reversed, non-topological storage order) x output policy (none, sequences of <=2 nodes incl. '
        'inputs/repeats, all sinks; "core" = none, each single node, (last,last),(last,x0),(x0,last), sinks) '
        'x transformer (RRG, RRG(allow_inputs_removal), MergeUnary, MergeDuplicate, MergeEquivalent, '
        'cleanup light/heavy, all 25 two-pass pipes a|b). A case = (circuit, outputs, transformer); '
        'distinct = distinct (transformer, result shape) outcomes.',
        'bounds': {
            'quick': 'singles+cleanup: F(0..2,<=2,FULL) (F(2,2): core policies), F(3,1,FULL) all policies; pairs: F(n,k,FULL) with n+k<=3; '
            'unary family F(2,3,{NOT,IFF,LNOT,RNOT,LIFF,RIFF,AND,GT}) and chains F(1,4,{NOT,LNOT,IFF}), F(1,5..6,{NOT,IFF}) with MUO/cleanup pipes, last-gate output',
            'thorough': '+ F(2,2,FULL) all policies, unary family k=3 core policies; pairs on F(2,2,FULL) core policies; singles on F(3,2,FULL) core policies, F(2,3,FULL\\S3) last-gate output; '
            'unary family k=4 over {NOT,IFF,LNOT,RIFF,AND} (last-gate output)',
        }[tier],
        'exhaustive': True,
        'assumptions': ['vmc.refmodel evaluator; Circuit accessors used by abstract() are faithful (tied by C01/C02)'],
    }


def probe():
    c = space.build(2, (('NOT', (0,)), ('NOT', (2,)), ('AND', (3, 1))), (4, 4))
    out = []
    for name in SINGLE_NAMES:
        r = transformers()[name][0](c)
        out.append([name, refmodel.abstract(r).to_json()])
    return out


def check_one(n, gates, outs, tname, acc, c=None, net=None, ref=None, storage=None):
    fn, removes = transformers()[tname]
    labs = space.labels(n, len(gates))
    if c is None:
        c = space.build(n, gates, outs)
        net = space.spec_net(n, gates, outs)
        ref = net.tables()
    if storage == 'scrambled' and c is not None and net is None:
        pass
    case = lambda: {**space.spec_json(n, gates, outs), 'transformer': tname, 'storage': storage}  # noqa: E731
    before = refmodel.abstract(c).key()
    users_before = refmodel.users_snapshot(c)
    acc.transitions += 1
    acc.traces += 1
    ok, r = guarded(acc, f'{tname}', case, fn, c)
    if not ok:
        return
    if r is c:
        acc.violation(f'{tname}/returns-argument-object', case, '')
    if refmodel.abstract(c).key() != before or refmodel.users_snapshot(c) != users_before:
        acc.violation(f'{tname}/argument-modified', case, f'after: {refmodel.abstract(c).to_json()}')
        # rebuild so that later transformers see the intended circuit
        c.__init__()
        c2 = space.build(n, gates, outs)
        if storage == 'scrambled':
            space.scramble_storage(c2)
        c.__dict__.update(c2.__dict__)
    try:
        rnet = refmodel.abstract(r)
        rin, rout = rnet.inputs, rnet.outputs
    except Exception as e:  # noqa: BLE001
        acc.violation(f'{tname}/result-unreadable', case, repr(e))
        return
    # interface
    olabs = net.outputs
    if removes:
        reach = net.reach_back(olabs)
        # a single RRG(allow_inputs_removal) must keep exactly the reachable inputs; inside a
        # pipe, reachability is relative to the intermediate circuit (an earlier pass may
        # legitimately disconnect an input the function does not depend on), so only the
        # subsequence property is required here and the function check below does the rest
        must = [i for i in net.inputs if i in reach] if tname == 'RRGi' else []
        it = iter(net.inputs)
        subseq = all(any(x == y for y in it) for x in rin)
        if not subseq or any(m not in rin for m in must):
            acc.violation(f'{tname}/inputs', case, f'result inputs {rin}, reachable {must}')
            return
        if tname.endswith('RRGi'):
            # the last stage asked for input removal: no input of the RESULT may be unreachable from its outputs
            live = rnet.reach_back(rnet.outputs)
            dead = [i for i in rin if i not in live]
            if dead:
                acc.violation(f'{tname}/unreachable-inputs-remain-after-trailing-input-removal', case, f'{dead}')
                return
    else:
        if rin != net.inputs:
            acc.violation(f'{tname}/inputs', case, f'result inputs {rin} expected {net.inputs}')
            return
    if len(rout) != len(olabs):
        acc.violation(f'{tname}/output-count', case, f'{rout} vs {olabs}')
        return
    probs = refmodel.wellformed(r)
    if probs:
        acc.violation(f'{tname}/result-ill-formed', case, probs[:3])
        return
    # function: evaluate the result over the argument's assignment space
    nn = len(net.inputs)
    iv = refmodel.input_vectors_cached(nn)
    mask = (1 << (1 << nn)) - 1
    pos = {l: i for i, l in enumerate(net.inputs)}
    try:
        rt = rnet.tables([iv[pos[l]] for l in rin], mask)
    except Exception as e:  # noqa: BLE001
        acc.violation(f'{tname}/result-not-evaluable', case, repr(e))
        return
    got = [rt[o] for o in rout]
    exp = [ref[o] for o in olabs]
    if got != exp:
        acc.violation(
            f'{tname}/function-changed',
            case,
            f'expected {[refmodel.tt_str(v, nn) for v in exp]} got {[refmodel.tt_str(v, nn) for v in got]} '
            f'result={rnet.to_json()}',
        )
    if rnet.size() > net.size():
        acc.violation(f'{tname}/result-larger', case, f'{rnet.size()} > {net.size()}')
    acc.outcome('shape', (tname, rnet.size(), len(rin), len(rout)))


def check_circuit(n, gates, acc, tnames, pol, scramble=False):
    k = len(gates)
    if pol == 'all':
        pols = space.output_policies(n, k, 2, gates=gates)
    elif pol == 'core':
        pols = core_policies(n, k, gates)
    else:
        pols = [(n + k - 1,)] if n + k else [()]
    labs = space.labels(n, k)
    net0 = space.spec_net(n, gates)
    ref = net0.tables()
    c = space.build(n, gates)
    for outs in pols:
        acc.states += 1
        c.set_outputs([labs[o] for o in outs])
        net = refmodel.Net(net0.inputs, [labs[o] for o in outs], net0.gates)
        for tname in tnames:
            check_one(n, gates, outs, tname, acc, c, net, ref)
        if scramble:
            c2 = space.scramble_storage(space.build(n, gates, outs))
            for tname in tnames:
                check_one(n, gates, outs, tname, acc, c2, net, ref, storage='scrambled')
    acc.sample({**space.spec_json(n, gates, pols[-1]), 'transformers': list(tnames)[:8]})


def _tnames(sel):
    if sel == 'single':
        return SINGLE_NAMES
    if sel == 'unary':
        return ('MUO', 'cleanup', 'MUO|MDG', 'MUO|MUO')
    if sel == 'pairs':
        return tuple(k for k in transformers() if '|' in k)
    return tuple(transformers())


def run_task(task, acc):
    if task.get('kind') == 'long':
        return check_long(acc, task['pat'], task['L'])
    alpha = ALPHAS[task['alpha']]
    tn = _tnames(task['tnames'])
    if task.get('kind') == 'wideif':
        # wide interface, narrow cone: 9..12 inputs of which two or three are read (positions around 0, 8, n-1)
        n = task['n']
        P = sorted({0, 1, 2, 7, 8, 9, n - 2, n - 1} & set(range(n)))
        for ar, t in ((2, 'AND'), (3, 'XOR')):
            for pos in itertools.permutations(P, ar):
                if max(pos) < 8 or pos[0] != task['first']:
                    continue
                for gates, outs in (((( t, tuple(pos)),), (n,)), (((t, tuple(pos)), ('NOT', (n,)), ('OR', (pos[0], pos[-1]))), (n + 1, n + 2))):
                    acc.states += 1
                    for tname in ('RRGi', 'RRG', 'RRGi|MDG', 'MUO|RRGi', 'RRGi|RRGi', 'cleanup'):
                        check_one(n, gates, outs, tname, acc)
        return
    if task.get('kind') == 'checksum':
        with degenerate_checksums():
            for gates in space.enum_gates(task['n'], task['k'], alpha, space.prefix_from_task(task)):
                n, k = task['n'], task['k']
                for outs in core_policies(n, k, gates):
                    acc.states += 1
                    for tname in tn:
                        check_one(n, gates, outs, tname, acc, storage='checksum-collision')
        return
    scramble = task['tnames'] == 'unary' or task['n'] + task['k'] <= 3
    for gates in space.enum_gates(task['n'], task['k'], alpha, space.prefix_from_task(task)):
        check_circuit(task['n'], gates, acc, tn, task['pol'], scramble)


def replay(case, acc):
    if 'task' in case:
        return run_task(case['task'], acc)
    if 'long_chain' in case:
        return check_long(acc, case['long_chain'], case['length'])
    n, gates, outs = space.spec_from_json(case)
    if case.get('storage') == 'checksum-collision':
        with degenerate_checksums():
            return check_one(n, gates, outs, case['transformer'], acc, storage='checksum-collision')
    if case.get('storage') == 'scrambled':
        c = space.scramble_storage(space.build(n, gates, outs))
        net = space.spec_net(n, gates, outs)
        return check_one(n, gates, outs, case['transformer'], acc, c, net, net.tables(), storage='scrambled')
    check_one(n, gates, outs, case['transformer'], acc)
