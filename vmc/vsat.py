"""vsat - a small complete SAT procedure (DPLL, two watched literals, chronological
backtracking) with total models, plus model enumeration by blocking clauses.

It is the decision procedure behind the pysat shim.  Complete: UNSAT is returned only
after the search space is exhausted.  Models are total over 1..nvars.  `order` and
`phase` let the environment explorer obtain *different* models of the same formula.
Self-tested exhaustively against truth-table brute force (vmc.selftest).
"""


class Unsat(Exception):
    pass


def solve(clauses, nvars=None, order=None, phase=False, assumptions=()):
    """Return a total model as list of signed ints (index i -> var i+1) or None."""
    if _C is not None and not assumptions:
        return _c_solve(clauses, nvars, order, phase)
    for m in _search(clauses, nvars, order, phase, assumptions, None):
        return m
    return None


def solve_py(clauses, nvars=None, order=None, phase=False, assumptions=()):
    """The pure-Python procedure (reference for the C build's self test)."""
    for m in _search(clauses, nvars, order, phase, assumptions, None):
        return m
    return None


def _load_c():
    import ctypes
    import os

    path = os.path.join(os.path.dirname(os.path.dirname(os.path.abspath(__file__))), 'build', 'libvsat.so')
    if os.environ.get('VMC_NO_C') or not os.path.exists(path):
        return None
    try:
        lib = ctypes.CDLL(path)
        lib.vsat_solve.restype = ctypes.c_int
        lib.vsat_solve.argtypes = [ctypes.c_int, ctypes.c_int, ctypes.POINTER(ctypes.c_int), ctypes.POINTER(ctypes.c_int),
                                   ctypes.c_int, ctypes.POINTER(ctypes.c_int)]
        return lib
    except OSError:
        return None


_C = _load_c()


def _c_solve(clauses, nvars, order, phase):
    import ctypes

    flat = []
    mx = 0
    for c in clauses:
        for l in c:
            flat.append(l)
            if l > mx:
                mx = l
            elif -l > mx:
                mx = -l
        flat.append(0)
    if nvars is None or nvars < mx:
        nvars = mx
    arr = (ctypes.c_int * len(flat))(*flat)
    out = (ctypes.c_int * max(nvars, 1))()
    if order is not None:
        o = [v for v in order if 1 <= v <= nvars]
        o = o + [0] * (nvars - len(o))
        oarr = (ctypes.c_int * max(nvars, 1))(*o[:nvars]) if nvars else None
    else:
        oarr = None
    r = _C.vsat_solve(nvars, len(clauses), arr, oarr, 1 if phase else 0, out)
    if r == 1:
        return list(out[:nvars])
    if r == 0:
        return None
    raise MemoryError('vsat C solver')


def _search(clauses, nvars, order, phase, assumptions, proj):
    """DPLL core as a generator. proj=None: yield the first model and stop. proj=set of
    variables: decide those first and yield one model per projected assignment that extends
    to a model (after a model, only decisions on projection variables are revisited)."""
    if nvars is None:
        nvars = 0
        for c in clauses:
            for l in c:
                if abs(l) > nvars:
                    nvars = abs(l)
    for a in assumptions:
        if abs(a) > nvars:
            nvars = abs(a)
    # literal index: v -> 2v, -v -> 2v+1
    def li(l):
        return 2 * l if l > 0 else -2 * l + 1

    val = [0] * (nvars + 1)  # 0 unassigned, 1 true, -1 false
    watches = [[] for _ in range(2 * nvars + 2)]
    cls = []
    units = []
    for c in clauses:
        c = list(dict.fromkeys(c))
        if not c:
            return
        taut = False
        s = set(c)
        for l in c:
            if -l in s:
                taut = True
                break
        if taut:
            continue
        if len(c) == 1:
            units.append(c[0])
            continue
        idx = len(cls)
        cls.append(c)
        watches[li(c[0])].append(idx)
        watches[li(c[1])].append(idx)

    trail = []
    trail_lim = []
    qhead = 0

    def enqueue(l):
        v = abs(l)
        s = 1 if l > 0 else -1
        if val[v] == 0:
            val[v] = s
            trail.append(l)
            return True
        return val[v] == s

    def propagate():
        nonlocal qhead
        while qhead < len(trail):
            l = trail[qhead]
            qhead += 1
            fl = -l  # literal that became false
            wl = watches[li(fl)]
            i = 0
            j = 0
            n = len(wl)
            while i < n:
                ci = wl[i]
                i += 1
                c = cls[ci]
                if c[0] == fl:
                    c[0], c[1] = c[1], c[0]
                # now c[1] == fl
                f = c[0]
                vf = val[abs(f)]
                if vf != 0 and (vf > 0) == (f > 0):
                    wl[j] = ci
                    j += 1
                    continue
                found = False
                for k in range(2, len(c)):
                    lk = c[k]
                    vk = val[abs(lk)]
                    if vk == 0 or (vk > 0) == (lk > 0):
                        c[1], c[k] = c[k], c[1]
                        watches[li(c[1])].append(ci)
                        found = True
                        break
                if found:
                    continue
                wl[j] = ci
                j += 1
                if vf == 0:
                    val[abs(f)] = 1 if f > 0 else -1
                    trail.append(f)
                else:
                    # conflict: copy the rest
                    while i < n:
                        wl[j] = wl[i]
                        j += 1
                        i += 1
                    del wl[j:]
                    return False
            del wl[j:]
        return True

    for u in units:
        if not enqueue(u):
            return
    for a in assumptions:
        if not enqueue(a):
            return
    if not propagate():
        return

    order = list(order) if order is not None else list(range(1, nvars + 1))
    if proj is not None:
        order = [v for v in order if v in proj] + [v for v in order if v not in proj]
    known = set(order)
    order += [v for v in range(1, nvars + 1) if v not in known]
    pos = 0
    # decision stack entries: (trail length before, decision literal, flipped?, position in order)
    stack = []

    def undo(tl):
        for l in trail[tl:]:
            val[abs(l)] = 0
        del trail[tl:]

    def backtrack(proj_only):
        """Flip the deepest unflipped decision (restricted to projection variables when
        proj_only) and propagate; repeat on conflict. False when the search is exhausted."""
        nonlocal qhead, pos
        while True:
            while stack and (stack[-1][2] or (proj_only and abs(stack[-1][1]) not in proj)):
                undo(stack.pop()[0])
            if not stack:
                return False
            tl, d0, _, p0 = stack.pop()
            undo(tl)
            stack.append((tl, -d0, True, p0))
            val[abs(d0)] = 1 if -d0 > 0 else -1
            trail.append(-d0)
            qhead = len(trail) - 1
            pos = p0
            proj_only = False
            if propagate():
                return True

    while True:
        while pos < len(order) and val[order[pos]] != 0:
            pos += 1
        if pos >= len(order):
            yield [v if val[v] > 0 else -v for v in range(1, nvars + 1)]
            if proj is None:
                return
            if not backtrack(True):
                return
            continue
        v = order[pos]
        d = v if phase else -v
        stack.append((len(trail), d, False, pos))
        val[v] = 1 if d > 0 else -1
        trail.append(d)
        qhead = len(trail) - 1
        if not propagate():
            if not backtrack(False):
                return


def iter_models_proj(clauses, nvars, project, order=None, phase=False):
    """Enumerate models distinct on `project` with one incremental search (no restarts)."""
    return _search(clauses, nvars, order, phase, (), set(project))


def iter_models(clauses, nvars=None, project=None, limit=None, order=None, phase=False):
    """Enumerate models, distinct on `project` (list of vars; default all)."""
    if nvars is None:
        nvars = max((abs(l) for c in clauses for l in c), default=0)
    extra = []
    cnt = 0
    while True:
        m = solve(list(clauses) + extra, nvars, order=order, phase=phase)
        if m is None:
            return
        yield m
        cnt += 1
        if limit is not None and cnt >= limit:
            return
        proj = project if project is not None else range(1, nvars + 1)
        block = [-m[v - 1] for v in proj]
        if not block:
            return
        extra.append(block)


def brute_models(clauses, nvars):
    """All models by truth-table enumeration (oracle for the self test; also used by
    C05 where the CNF has <= ~12 variables)."""
    out = []
    for a in range(1 << nvars):
        ok = True
        for c in clauses:
            sat = False
            for l in c:
                v = abs(l)
                b = (a >> (v - 1)) & 1
                if (b == 1) == (l > 0):
                    sat = True
                    break
            if not sat:
                ok = False
                break
        if ok:
            out.append(a)
    return out


def check_model(clauses, model):
    s = set(model)
    for c in clauses:
        if not any(l in s for l in c):
            return False
    return True
