#!/usr/bin/env python3
"""Write one replay file per fixed finding (its first failing case) under regressions/.
`tools/replay_regressions.sh` replays them without the explorer: on the repaired tree each
must report no violation; if a defect returns, the replay fails."""
import json
import os

root = os.path.dirname(os.path.dirname(os.path.abspath(__file__)))
d = json.load(open(os.path.join(root, 'known_findings.json')))
n = 0
for f in d['findings']:
    case = f.get('first_failing_case')
    if not case or 'call' in case or 'start' in case and 'history' not in case:
        continue
    rec = {'property': f['property'], 'sig': 'regression/' + f['id'], 'case': case, 'detail': f.get('what', ''), 'features': {}}
    with open(os.path.join(root, 'regressions', f['id'] + '.json'), 'w') as fh:
        json.dump(rec, fh, indent=1, ensure_ascii=False)
    n += 1
print(n, 'regression replays written')
