# one add(...) per implemented check; everything else is listed under not_applicable
add('C01', 'bounded exhaustive enumeration of circuits x assignments x entry points against a reference evaluator (explicit-state, on the real code)',
    'Every circuit of F(n,k,FULL) up to the stated size, every output policy, all 2^n assignments and all seven evaluation entry points are executed on the real code and compared with the reference semantics; duplicated gate tables are compared entry by entry. Exhaustive within the bound, silent about larger circuits.',
    'trusted: vmc/refmodel.py gate table + evaluator (300 lines), CPython; bound n+k<=5', 'DESIGN.md 4 C01')
