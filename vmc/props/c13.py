"""C13 - a miter is true exactly where the two circuits differ.

All ordered pairs of circuit variants from a pool (E1 circuits x output lists of length
1..2 incl. outputs that are inputs and repeated outputs; both circuits use the same
labels), default and custom block names; mismatched shapes must be rejected.
"""

import itertools

from vmc import refmodel, space, vsat
from vmc.engine import guarded

ID = 'C13'
ALPHA = space.alphabet('NOT', 'AND', 'OR', 'XOR', 'GT', 'ALWAYS_TRUE', 'ALWAYS_FALSE')


def variants(n, kmax, mlist=(1, 2)):
    """(n, gates, outs) for every circuit of F(n,<=kmax,ALPHA) and every output list."""
    out = []
    for k in range(0, kmax + 1):
        for gates in space.enum_gates(n, k, ALPHA):
            p = n + k
            for m in mlist:
                for outs in itertools.product(range(p), repeat=m):
                    out.append((n, gates, outs))
    return out


def VARIANT_PRED(t, v):
    return t.get('kind') == 'pairs' and t.get('n') == 1 and t.get('kl') == 1


def plan(tier):
    t = []
    # pools are rebuilt inside the workers; a task = (n, m, kmax_left, kmax_right, slice of left index)
    for n in (1, 2):
        for m in (1, 2):
            nl = len([v for v in variants(n, 1, (m,))])
            for i in range(0, nl, 8):
                t.append({'kind': 'pairs', 'n': n, 'm': m, 'kl': 1, 'kr': 1, 'lo': i, 'hi': i + 8, 'names': 'both' if i == 0 else 'default'})
        if tier == 'thorough' or n == 1:
            for m in (1, 2):
                nl = len(variants(n, 2, (m,)))
                for i in range(0, nl, 40):
                    t.append({'kind': 'pairs', 'n': n, 'm': m, 'kl': 2, 'kr': 1, 'lo': i, 'hi': i + 40, 'names': 'default'})
        else:
            # quick: 2-gate left circuits against 0/1-gate right circuits, single output = last gate
            nl = len(variants(n, 2, (1,)))
            for i in range(0, nl, 40):
                t.append({'kind': 'pairs', 'n': n, 'm': 1, 'kl': 2, 'kr': 1, 'lo': i, 'hi': i + 40, 'names': 'default', 'last_only': True})
    t.append({'kind': 'zero'})
    t.append({'kind': 'big'})
    t.append({'kind': 'm3'})
    t.append({'kind': 'nested'})
    for pa, pb in (('not-and', 'not-and'), ('cmp', 'cmp'), ('not-and', 'xor-nor'), ('or3', 'lr')):
        for L in space.DEEP_LENGTHS[tier][:2]:
            for sa, sb in (('fwd', 'fwd'), ('fwd', 'rev'), ('rev', 'fwd')):
                t.append({'kind': 'deep', 'pa': pa, 'pb': pb, 'L': L, 'sa': sa, 'sb': sb})
    for lo in range(0, len(rep3_pool()), 6):
        t.append({'kind': 'rep3', 'lo': lo, 'hi': lo + 6})
    t.append({'kind': 'mismatch'})
    return t


def describe(tier):
    return {
        'rule': 'nested: operands that are composite designs with blocks nested 1-3 levels deep under the same names on both sides; deep: miters of two chains of 1200/3000 gates (same and different patterns, storage orders), evaluated and solved; rep3: all ordered pairs of 81 operands built from three-operand AND/OR/XOR gates over every operand triple (operands read twice, inner NOT gate); ordered pairs (left, right) of circuit variants = circuit of F(n,<=k,{NOT,AND,OR,XOR,GT,constants}) x output list '
        '(every sequence of 1..2 nodes incl. inputs and repeats); both circuits share labels (also with the right circuit declaring the same input labels in reversed order); build_miter with default and custom '
        'block names; the miter is evaluated on all 2^n inputs through Circuit.evaluate and the reference evaluator; '
        'is_circuit_satisfiable(miter) with the shim solver; operands re-abstracted; every mismatched-shape pair from a small '
        'pool must raise MiterDifferentShapesError; zero-input pairs (constants); shapes with 257/300 inputs and 129/200 outputs evaluated on all-zero, all-one and one-hot rows. distinct = distinct (n, m, difference table) outcomes.',
        'bounds': {'quick': 'n in {1,2}: all pairs with <=1 gate each, m in {1,2}; left with 2 gates vs right with <=1 gate (n=1: all outputs; n=2: single outputs on non-dead choices); 3-output pairs from a 12-variant pool',
                   'thorough': 'n in {1,2}: left <=2 gates x right <=1 gate, m in {1,2}, all output lists'}[tier],
        'exhaustive': True,
        'assumptions': ['vmc.refmodel evaluator; vsat as the SAT solver behind the pysat shim'],
    }


def probe():
    from cirbo.sat import build_miter

    a = space.build(2, (('AND', (0, 1)),), (2,))
    b = space.build(2, (('OR', (0, 1)),), (2,))
    return refmodel.abstract(build_miter(a, b)).to_json()


def check_pair(L, R, acc, names=None, right_inputs_reversed=False, built=None):
    from cirbo.sat import build_miter, is_circuit_satisfiable

    if built is not None:
        a, b, case_d = built
        n = len(a.inputs)
        ol = list(a.outputs)
        case = lambda: dict(case_d)  # noqa: E731
    else:
        n, gl, ol = L
        _, gr, orr = R
        case = lambda: {'left': space.spec_json(n, gl, ol), 'right': space.spec_json(n, gr, orr), 'names': names, 'right_inputs_reversed': right_inputs_reversed}  # noqa: E731
        a = space.build(n, gl, ol)
        b = space.build(n, gr, orr)
    feats = {'m': len(ol)}
    if right_inputs_reversed:
        # same labels on both sides, declared in a different order: inputs correspond by POSITION
        b.set_inputs(list(reversed(b.inputs)))
    na, nb = refmodel.abstract(a), refmodel.abstract(b)
    ka, kb = na.key(), nb.key()
    acc.states += 1
    acc.traces += 1
    acc.transitions += 1
    kw = {} if names is None else {'left_name': names[0], 'right_name': names[1]}
    ok, mt = guarded(acc, 'build_miter', case, lambda: build_miter(a, b, **kw))
    if refmodel.abstract(a).key() != ka or refmodel.abstract(b).key() != kb:
        acc.violation('build_miter/operand-modified', case, '', feats)
    if not ok:
        return
    ta, tb = na.out_tables(), nb.out_tables()
    diff = 0
    for x, y in zip(ta, tb):
        diff |= x ^ y
    mnet = refmodel.abstract(mt)
    if len(mnet.inputs) != n:
        acc.violation('build_miter/input-count', case, mnet.inputs, feats)
        return
    if len(mnet.outputs) != 1:
        acc.violation('build_miter/output-count', case, mnet.outputs, feats)
        return
    probs = refmodel.wellformed(mt)
    if probs:
        acc.violation('build_miter/ill-formed', case, probs[:3], feats)
        return
    try:
        got = mnet.out_tables()[0]
    except Exception as e:  # noqa: BLE001
        acc.violation('build_miter/not-evaluable-by-reference', case, repr(e), feats)
        return
    if got != diff:
        acc.violation('build_miter/wrong-function', case, f'miter {refmodel.tt_str(got, n)} differ {refmodel.tt_str(diff, n)}', feats)
        return
    # inputs correspond positionally to the left circuit's inputs: already implied by the table
    # comparison above (assignment j gives miter input i the value of left input i)
    for j, x in enumerate(refmodel.assignments(n)):
        acc.transitions += 1
        try:
            v = mt.evaluate(list(x))
        except Exception as e:  # noqa: BLE001
            acc.violation(f'miter.evaluate/raises-{type(e).__name__}', case, repr(e), feats)
            return
        if v != [bool((diff >> j) & 1)]:
            acc.violation('miter.evaluate/wrong-value', case, f'x={x} got {v}', feats)
            return
    acc.transitions += 1
    try:
        res = is_circuit_satisfiable(mt)
    except Exception as e:  # noqa: BLE001
        acc.violation(f'is_circuit_satisfiable(miter)/raises-{type(e).__name__}', case, repr(e), feats)
        return
    if res.answer != (diff != 0):
        acc.violation('is_circuit_satisfiable(miter)/wrong-answer', case, f'{res.answer} but difference table {refmodel.tt_str(diff, n)}', feats)
    elif res.answer:
        x = [(i + 1) in res.model for i in range(n)]
        j = sum((1 << (n - 1 - i)) for i in range(n) if x[i])
        if not (diff >> j) & 1:
            acc.violation('is_circuit_satisfiable(miter)/model-is-not-a-difference', case, f'{res.model}', feats)
    acc.outcome('miter', (n, len(ol), diff))


def run_pairs(task, acc):
    n, m = task['n'], task['m']
    # a caller may have generated and edited its own pairwise-xor gadget earlier in the process
    try:
        from cirbo.synthesis.generation import generate_pairwise_xor

        from cirbo.core.circuit import gate as G_

        g = generate_pairwise_xor(m)
        first = g.outputs[0]
        g.emplace_gate('zz_negated', G_.NOT, (first,))
        g.set_outputs(['zz_negated'] + list(g.outputs[1:]))
        g.order_inputs(list(reversed(g.inputs))[:1])
    except Exception:  # noqa: BLE001
        pass
    left = variants(n, task['kl'], (m,))
    right = variants(n, task['kr'], (m,))
    if task['kl'] == 2:
        left = [v for v in left if len(v[1]) == 2]
    if task.get('last_only'):
        left = [v for v in left if v[2] == (n + len(v[1]) - 1,)]
    names_list = [None, ('L', 'R'), ('a@b', 'x')] if task['names'] == 'both' else [None]
    for L in left[task['lo']:task['hi']]:
        for R in right:
            for nm in names_list:
                check_pair(L, R, acc, nm)
            if n >= 2 and task['kl'] == 1:
                check_pair(L, R, acc, None, right_inputs_reversed=True)
    if left[task['lo']:task['hi']]:
        acc.sample({'left': space.spec_json(*left[task['lo']]), 'right': space.spec_json(*right[-1]), 'names': None})


def run_m3(acc):
    pool = [v for v in variants(2, 1, (3,))]
    pool = [v for v in pool if v[1] in ((), (('AND', (0, 1)),), (('GT', (0, 1)),), (('NOT', (1,)),))][:: 7]
    for L in pool:
        for R in pool:
            check_pair(L, R, acc)
    acc.sample({'left': space.spec_json(*pool[0]), 'right': space.spec_json(*pool[-1]), 'names': None})


def run_mismatch(acc):
    from cirbo.sat import build_miter
    from cirbo.sat.exceptions import MiterDifferentShapesError

    pool = []
    for n in (0, 1, 2, 3):
        for m in (0, 1, 2):
            gates = (('ALWAYS_TRUE', ()),)
            pool.append((n, gates, tuple([n] * m)))
    for L in pool:
        for R in pool:
            same = L[0] == R[0] and len(L[2]) == len(R[2])
            if same:
                continue
            acc.states += 1
            acc.traces += 1
            acc.transitions += 1
            case = {'left': space.spec_json(*L), 'right': space.spec_json(*R)}
            a, b = space.build(*L), space.build(*R)
            try:
                build_miter(a, b)
                acc.violation('build_miter/mismatched-shapes-accepted', case, '')
            except MiterDifferentShapesError:
                acc.outcome('mismatch', (L[0], len(L[2]), R[0], len(R[2])))
            except Exception as e:  # noqa: BLE001
                acc.violation('build_miter/mismatched-shapes-wrong-error', case, repr(e))
    acc.sample({'left': space.spec_json(*pool[1]), 'right': space.spec_json(*pool[5])})


def run_zero(acc):
    """Circuits without inputs (constants and gates over them)."""
    pool = [v for m in (1, 2) for v in variants(0, 2, (m,))]
    for L in pool:
        for R in pool:
            if len(L[2]) == len(R[2]):
                check_pair(L, R, acc)
    acc.sample({'left': space.spec_json(*pool[0]), 'right': space.spec_json(*pool[-1]), 'names': None})


def run_big(acc):
    """Shapes beyond small-integer caching and beyond one machine word: 257/300 inputs, 129/200 outputs.
    The miter is evaluated by the reference evaluator on a stated set of rows: all zero, all one, one-hot."""
    from cirbo.core.circuit import Circuit, gate as G
    from cirbo.sat import build_miter

    for nin, nout in ((8, 129), (8, 200), (257, 2), (300, 3), (260, 130)):
        acc.states += 1
        acc.traces += 1
        acc.transitions += 1
        case = {'big': {'inputs': nin, 'outputs': nout}}

        def mk(kind):
            c = Circuit()
            ins = [f'i{j}' for j in range(nin)]
            c.add_inputs(ins)
            outs = []
            for o in range(nout):
                a, b = ins[o % nin], ins[(o * 7 + 3) % nin]
                t = (G.AND, G.OR, G.XOR)[(o + (1 if kind == 'B' and o == nout - 1 else 0)) % 3]
                c.emplace_gate(f'o{o}', t, (a, b))
                outs.append(f'o{o}')
            c.set_outputs(outs)
            return c

        for kinds in (('A', 'A'), ('A', 'B')):
            l_, r_ = mk(kinds[0]), mk(kinds[1])
            try:
                mt = build_miter(l_, r_)
            except Exception as e:  # noqa: BLE001
                acc.violation(f'build_miter/raises-{type(e).__name__}', {**case, 'pair': kinds}, repr(e)[:200], {'big': True})
                continue
            rows = nin + 2
            mask = (1 << rows) - 1
            ivec = [(1 << (j + 2)) | 2 for j in range(nin)]  # row 0: all zero, row 1: all one, row j+2: only input j
            mnet = refmodel.abstract(mt)
            if len(mnet.inputs) != nin or len(mnet.outputs) != 1:
                acc.violation('build_miter/shape', {**case, 'pair': kinds}, f'{len(mnet.inputs)} inputs', {'big': True})
                continue
            got = mnet.tables(ivec, mask)[mnet.outputs[0]]
            ta = refmodel.abstract(l_).tables(ivec, mask)
            tb = refmodel.abstract(r_).tables(ivec, mask)
            want = 0
            for oa, ob in zip(l_.outputs, r_.outputs):
                want |= ta[oa] ^ tb[ob]
            if got != want:
                acc.violation('build_miter/wrong-function', {**case, 'pair': kinds}, 'on the stated rows', {'big': True})
            acc.outcome('miter', ('big', nin, nout, kinds, want != 0))
    acc.sample({'big': {'inputs': 257, 'outputs': 2}})


def rep3_pool():
    """operands with three-operand gates that read one operand twice (every operand triple over two inputs, and
    over two inputs plus an inner NOT gate)"""
    pool = []
    for t in ('AND', 'OR', 'XOR'):
        for tri in itertools.product(range(2), repeat=3):
            pool.append((2, ((t, tri),), (2,)))
        for tri in itertools.product(range(3), repeat=3):
            if 2 in tri:
                pool.append((2, (('NOT', (1,)), (t, tri)), (3,)))
    return pool


def run_rep3(acc, lo, hi):
    pool = rep3_pool()
    for L in pool[lo:hi]:
        for R in pool:
            check_pair(L, R, acc)
            if L is pool[lo]:
                check_pair(L, R, acc, None, True)


def run_deep(acc, pa, pb, L, sa, sb):
    """miter of two chains deeper than the recursion limit (same / different pattern, storage orders)"""
    a, _ = space.deep_chain(pa, L, sa, outputs='last')
    b, _ = space.deep_chain(pb, L, sb, outputs='last')
    check_pair(None, None, acc, built=(a, b, {'deep': [pa, pb], 'length': L, 'storage': [sa, sb]}))


def run_nested(acc):
    """both operands are composite designs that carry a block nested two levels deep under the same names"""
    from cirbo.core.circuit import Circuit

    bases = [(2, (('AND', (0, 1)), ('XOR', (0, 1))), (2, 3)), (2, (('XOR', (0, 1)), ('AND', (0, 1))), (3, 2)),
             (2, (('OR', (0, 1)), ('NOT', (2,))), (3, 2)), (1, (('NOT', (0,)),), (1, 0))]
    def wrap(spec, depth):
        c = space.build(*spec)
        for d in range(depth):
            host = Circuit()
            host.add_circuit(c, name=('ha', 'stage', 'top')[d])
            c = host
        return c
    for L in bases:
        for R in bases:
            if L[0] != R[0] or len(L[2]) != len(R[2]):
                continue
            for dl, dr in ((1, 1), (2, 2), (2, 1), (3, 3)):
                a, b = wrap(L, dl), wrap(R, dr)
                check_pair(None, None, acc, built=(a, b, {'nested': [space.spec_json(*L), space.spec_json(*R)], 'depths': [dl, dr]}))


def run_task(task, acc):
    if task['kind'] == 'zero':
        return run_zero(acc)
    if task['kind'] == 'big':
        return run_big(acc)
    if task['kind'] == 'pairs':
        return run_pairs(task, acc)
    if task['kind'] == 'm3':
        return run_m3(acc)
    if task['kind'] == 'deep':
        return run_deep(acc, task['pa'], task['pb'], task['L'], task['sa'], task['sb'])
    if task['kind'] == 'nested':
        return run_nested(acc)
    if task['kind'] == 'rep3':
        return run_rep3(acc, task['lo'], task['hi'])
    return run_mismatch(acc)


def replay(case, acc):
    if 'task' in case:
        return run_task(case['task'], acc)
    if 'big' in case:
        return run_big(acc)
    if 'nested' in case:
        return run_nested(acc)
    if 'deep' in case:
        return run_deep(acc, case['deep'][0], case['deep'][1], case['length'], case['storage'][0], case['storage'][1])
    L = space.spec_from_json(case['left'])
    R = space.spec_from_json(case['right'])
    if L[0] != R[0] or len(L[2]) != len(R[2]):
        return run_mismatch(acc)
    check_pair(L, R, acc, tuple(case['names']) if case.get('names') else None, case.get('right_inputs_reversed', False))
