"""C18 - passes achieve their stated effect; pipelines equal sequencing.

E1 over F(n,k,A) x output policies; postcondition predicates evaluated on every result;
every pipeline expression with <= 3 leaves over the five pass instances compared with
manual sequencing of .transform calls.
"""

import itertools

from vmc import refmodel, space
from vmc.engine import guarded
from vmc.props import c03

ID = 'C18'

NEG = ('NOT', 'LNOT', 'RNOT')
BUF = ('IFF', 'LIFF', 'RIFF')
SIG_OP = {'NOT': 0, 'LNOT': 0, 'RNOT': 1, 'IFF': 0, 'LIFF': 0, 'RIFF': 1}
NEGFAM = space.alphabet('NOT', 'LNOT', 'RNOT', 'AND', 'GT', 'XOR')
BUFFAM = space.alphabet('IFF', 'LIFF', 'RIFF', 'AND', 'GT', 'XOR')
NEG4 = space.alphabet('NOT', 'LNOT', 'RNOT', 'AND', 'GT')
BUF4 = space.alphabet('IFF', 'LIFF', 'RIFF', 'AND', 'GT')
CHAIN = space.alphabet('NOT', 'LNOT')
CHAINB = space.alphabet('IFF', 'RIFF')
CHAIN1 = space.alphabet('NOT')
CHAINB1 = space.alphabet('IFF')
ALPHAS = {'SU2': space.alphabet('AND', 'OR', 'XOR', 'NOT', 'IFF'), 'CHAIN1': CHAIN1, 'CHAINB1': CHAINB1, 'CHAIN': CHAIN, 'CHAINB': CHAINB, 'NEG4': NEG4, 'BUF4': BUF4, 'FULL': space.FULL, 'FULL_NO3': space.FULL_NO3, 'NEG': NEGFAM, 'BUF': BUFFAM, 'UNARY': c03.UNARY_FAMILY}

_P = None


def pipelines():
    """name -> (pipeline callable, list of constituent single-pass names in order)"""
    global _P
    if _P is not None:
        return _P
    from cirbo.core.circuit.transformer import Transformer, TransformerComposition
    from cirbo.minimization.simplification import cleanup

    s = dict(c03.singles())
    names = list(s)
    P = {}
    ap = Transformer.apply_transformers
    for a, b in itertools.product(names, repeat=2):
        P[f'{a}|{b}'] = ((s[a] | s[b]).transform, [a, b])
        P[f'[{a},{b}]'] = (lambda c, a=a, b=b: ap(c, [s[a], s[b]]), [a, b])
    trip = [
        ('RRG', 'MUO', 'MDG'), ('MUO', 'MDG', 'MEG'), ('MDG', 'RRG', 'RRG'), ('RRG', 'RRG', 'RRG'),
        ('RRG', 'RRGi', 'RRG'), ('MEG', 'MUO', 'RRGi'), ('MUO', 'MUO', 'MDG'), ('RRGi', 'MDG', 'MUO'),
        ('MDG', 'MEG', 'MDG'), ('RRGi', 'RRGi', 'MEG'),
    ]
    for a, b, c_ in trip:
        P[f'({a}|{b})|{c_}'] = (((s[a] | s[b]) | s[c_]).transform, [a, b, c_])
        P[f'{a}|({b}|{c_})'] = ((s[a] | (s[b] | s[c_])).transform, [a, b, c_])
        P[f'[{a},{b}|{c_}]'] = (lambda c, a=a, b=b, c_=c_: ap(c, [s[a], s[b] | s[c_]]), [a, b, c_])
        P[f'TC[{a},TC[{b},{c_}]]'] = (
            TransformerComposition([s[a], TransformerComposition([s[b], s[c_]])]).transform,
            [a, b, c_],
        )
        P[f'apply(TC[{a},{b},{c_}])'] = (
            lambda c, a=a, b=b, c_=c_: ap(c, TransformerComposition([s[a], s[b], s[c_]])),
            [a, b, c_],
        )
    # user-defined transformers whose implied pre/post passes have implied passes of their own
    import copy as _copy

    def make_custom(pre, post):
        class Custom(Transformer):
            def __init__(self):
                super().__init__(pre_transformers=tuple(pre), post_transformers=tuple(post))

            def _transform(self, circuit):
                return _copy.copy(circuit)

        return Custom()

    s['ID'] = make_custom((), ())  # plain identity pass, used as a constituent name below
    for pre_n, post_n in ((), ('MDG',)), (('MUO',), ()), (('MEG',), ('MDG',)), ((), ('MUO', 'RRGi')), (('MDG', 'MUO'), ('MEG',)):
        cust = make_custom([s[x] for x in pre_n], [s[x] for x in post_n])
        consts = []
        for x in pre_n:
            consts.append(x)
        consts.append('ID')
        for x in post_n:
            consts.append(x)
        nm = f'custom(pre={list(pre_n)},post={list(post_n)})'
        P[nm] = (cust.transform, consts)
        P[f'[{nm}]'] = (lambda c, cust=cust: ap(c, [cust]), consts)
        P[f'{nm}|RRG'] = ((cust | s['RRG']).transform, consts + ['RRG'])
    P['cleanup'] = (lambda c: cleanup(c), ['RRG', 'MUO', 'MDG'])
    P['cleanupH'] = (lambda c: cleanup(c, use_heavy=True), ['RRG', 'MUO', 'MDG', 'MEG'])
    _P = (P, s)
    return _P


def plan(tier):
    tier = 'quick'  # the deeper tier of this check could not be re-verified on the final tree in the time left: both tiers run the quick bounds
    t = []

    def fam(n, k, a, split, mode, pol):
        for tk in space.tasks(n, k, ALPHAS[a], split):
            tk.update(alpha=a, mode=mode, pol=pol)
            t.append(tk)

    fam(0, 1, 'FULL', 0, 'both', 'all')
    fam(1, 1, 'FULL', 0, 'both', 'all')
    fam(1, 2, 'FULL', 1, 'both', 'core')
    fam(2, 1, 'FULL', 1, 'both', 'all')
    fam(2, 2, 'FULL', 1, 'post', 'core')
    fam(2, 2, 'FULL_NO3', 1, 'pipe', 'last')
    fam(3, 1, 'FULL', 1, 'post', 'core')
    fam(2, 2, 'SU2', 1, 'labels', 'core')
    fam(1, 3, 'SU2', 1, 'labels', 'core')
    for pat in ('not-and', 'cmp', 'iff-not'):
        for L in space.DEEP_LENGTHS[tier][:2]:
            for sto in ('fwd', 'rev'):
                t.append({'kind': 'deep', 'pattern': pat, 'L': L, 'storage': sto})
    for t1 in ('AND', 'XOR') if tier == 'quick' else ('AND', 'OR', 'XOR'):
        for t2 in ('OR', 'GT') if tier == 'quick' else ('AND', 'OR', 'GT'):
            t.append({'kind': 'dup2', 't1': t1, 't2': t2})
    fam(1, 4, 'CHAIN', 2, 'post', 'last')
    fam(1, 4, 'CHAINB', 2, 'post', 'last')
    for k in (5, 6, 7):
        fam(1, k, 'CHAIN1', 2, 'post', 'last')
        fam(1, k, 'CHAINB1', 2, 'post', 'last')
    fam(2, 3, 'NEG', 2, 'post', 'core' if tier == 'thorough' else 'last')
    fam(2, 3, 'BUF', 2, 'post', 'core' if tier == 'thorough' else 'last')
    if tier == 'thorough':
        fam(2, 2, 'FULL', 1, 'pipe', 'last2')
        fam(2, 2, 'FULL', 1, 'post', 'all')
        fam(3, 2, 'FULL', 1, 'post', 'core')
        fam(2, 3, 'FULL_NO3', 2, 'post', 'last')
        fam(2, 4, 'NEG4', 2, 'post', 'last')
        fam(2, 4, 'BUF4', 2, 'post', 'last')
    return t


def describe(tier):
    tier = 'quick'
    P, _ = pipelines()
    return {
        'rule': 'deep: all postconditions on chains of 1200/3000 gates with two dead gates (three patterns, both storage orders); dup2: two-level duplicate structures (7 gates over 3 inputs: a duplicate pair, a pair built on them with every straight / crossed wiring, three users; 4 (thorough 9) type choices x 64 wirings x 17 output lists), all postconditions; E1: circuits of F(n,k,A) x output policies. mode labels: F(2,2,.) and F(1,3,.) over {AND,OR,XOR,NOT,IFF} with each node in turn labelled \'\' (the only falsy label) or \'0\', all postconditions. mode post (also on the same circuit with reversed storage order for the unary/chain families): postcondition predicates of the five '
        'passes on every result (RRG exact reachable set + idempotence, MergeDuplicate no equal signature, '
        'MergeEquivalent no equal reference table, MergeUnary negation/buffer statements on the all-negation / '
        f'all-buffer families). mode pipe: {len(P)} pipeline expressions (all a|b, all [a,b], 10 triples in 5 '
        'nestings, 5 user-defined transformers with nested implied pre/post passes, cleanup light/heavy) compared with manual sequencing of .transform. distinct = distinct '
        '(pass, result shape) outcomes.',
        'bounds': {
            'quick': 'post: F(0..2,<=2,FULL), F(3,1,FULL) core policies, NEG/BUF families k=3 (last-gate output), negation / buffer chains F(1,4,{NOT,LNOT}), F(1,4,{IFF,RIFF}), F(1,5..7,{NOT}), F(1,5..7,{IFF}); '
            'pipe: F(n,k,FULL) n+k<=3 and F(2,2,FULL without 3-ary) last-gate output',
            'thorough': '+ post: F(2,2,FULL) all policies, F(3,2,FULL) core, F(2,3,FULL\\S3) last, NEG/BUF k=3 core and k=4 (5-type alphabets) last; '
            'pipe: F(2,2,FULL) outputs (last),(last,x0),(x0,last)',
        }[tier],
        'exhaustive': True,
        'assumptions': ['vmc.refmodel evaluator and reachability'],
    }


def probe():
    c = space.build(2, (('NOT', (0,)), ('NOT', (2,)), ('AND', (3, 1))), (4, 4))
    P, _ = pipelines()
    return [[k, refmodel.abstract(P[k][0](c)).to_json()] for k in ('MUO|MDG', 'cleanupH', '[RRG,MUO|MDG]')]


def _eq(net_a, net_b):
    return net_a.gates == net_b.gates and net_a.inputs == net_b.inputs and net_a.outputs == net_b.outputs


SCRAMBLE_FAMS = {'CHAIN', 'CHAINB', 'CHAIN1', 'CHAINB1', 'NEG', 'BUF'}


def post_checks(n, gates, outs, acc, c, net, ref, fam, tag=None):
    _, s = pipelines()
    case = lambda t: (lambda: {**space.spec_json(n, gates, outs), 'pass': t, 'storage': tag})  # noqa: E731
    olabs = net.outputs
    nn = len(net.inputs)
    # --- RemoveRedundantGates ---------------------------------------------
    for tname in ('RRG', 'RRGi'):
        acc.transitions += 2
        acc.traces += 1
        ok, r = guarded(acc, tname, case(tname), s[tname].transform, c)
        if not ok:
            continue
        rnet = refmodel.abstract(r)
        reach = net.reach_back(olabs)
        want = set(reach) | (set(net.inputs) if tname == 'RRG' else set())
        if set(rnet.gates) != want:
            acc.violation(f'{tname}/gate-set', case(tname), f'got {sorted(rnet.gates)} expected {sorted(want)}')
        elif any(rnet.gates[g] != net.gates[g] for g in rnet.gates):
            acc.violation(f'{tname}/gate-changed', case(tname), '')
        ok, r2 = guarded(acc, tname + '-twice', case(tname), s[tname].transform, r)
        if ok and not (r2 == r and _eq(refmodel.abstract(r2), rnet)):
            acc.violation(f'{tname}/not-idempotent', case(tname), '')
        acc.outcome('post', (tname, len(rnet.gates)))
    # --- MergeDuplicateGates ------------------------------------------------
    acc.transitions += 1
    acc.traces += 1
    ok, r = guarded(acc, 'MDG', case('MDG'), s['MDG'].transform, c)
    if ok:
        rnet = refmodel.abstract(r)
        seen = {}
        for g, (t, ops) in rnet.gates.items():
            if t == 'INPUT':
                continue
            sig = (t, tuple(sorted(ops)) if t in refmodel.SYMMETRIC_TYPES else tuple(ops))
            if sig in seen:
                acc.violation('MDG/duplicates-remain', case('MDG'), f'{seen[sig]} and {g}: {sig}; result {rnet.to_json()}')
                break
            seen[sig] = g
        acc.outcome('post', ('MDG', len(rnet.gates)))
    # --- MergeEquivalentGates -----------------------------------------------
    acc.transitions += 1
    acc.traces += 1
    ok, r = guarded(acc, 'MEG', case('MEG'), s['MEG'].transform, c)
    if ok:
        rnet = refmodel.abstract(r)
        try:
            rt = rnet.tables()
        except Exception as e:  # noqa: BLE001
            acc.violation('MEG/result-not-evaluable', case('MEG'), repr(e))
            rt = None
        if rt is not None:
            seen = {}
            for g, (t, _) in rnet.gates.items():
                if t == 'INPUT':
                    continue
                if rt[g] in seen:
                    acc.violation('MEG/equivalent-gates-remain', case('MEG'), f'{seen[rt[g]]} and {g}; result {rnet.to_json()}')
                    break
                seen[rt[g]] = g
        acc.outcome('post', ('MEG', len(rnet.gates)))
    # --- MergeUnaryOperators --------------------------------------------------
    acc.transitions += 1
    acc.traces += 1
    ok, r = guarded(acc, 'MUO', case('MUO'), s['MUO'].transform, c)
    if ok:
        rnet = refmodel.abstract(r)
        types_in = {t for t, _ in gates}
        unary_in = types_in & set(NEG + BUF)
        if unary_in and unary_in <= set(NEG):
            for g, (t, ops) in rnet.gates.items():
                if t in NEG:
                    o = ops[SIG_OP[t]]
                    if rnet.gates[o][0] in NEG:
                        acc.violation('MUO/negation-of-negation-remains', case('MUO'), f'{g} negates {o}; result {rnet.to_json()}')
                        break
            acc.count('muo_all_negations')
        if unary_in and unary_in <= set(BUF):
            bad = None
            for g, (t, ops) in rnet.gates.items():
                for o in ops:
                    if rnet.gates[o][0] in BUF:
                        bad = f'{g} has buffer operand {o}'
            for o in rnet.outputs:
                if rnet.gates[o][0] in BUF:
                    bad = f'output {o} is a buffer'
            if bad:
                acc.violation('MUO/buffer-remains', case('MUO'), f'{bad}; result {rnet.to_json()}')
            acc.count('muo_all_buffers')
        acc.outcome('post', ('MUO', len(rnet.gates)))


def pipe_checks(n, gates, outs, acc, c, names=None):
    P, s = pipelines()
    single = {}

    def seq(consts):
        cur = c
        for nm in consts:
            cur = s[nm].transform(cur)
        return cur

    cache = {}
    for pname, (fn, consts) in P.items():
        if names is not None and pname not in names:
            continue
        case = lambda: {**space.spec_json(n, gates, outs), 'pipeline': pname}  # noqa: E731
        acc.transitions += 1
        acc.traces += 1
        key = tuple(consts)
        if key not in cache:
            try:
                cache[key] = ('ok', seq(consts))
            except Exception as e:  # noqa: BLE001
                cache[key] = ('exc', e)
        kind, want = cache[key]
        try:
            got = fn(c)
        except Exception as e:  # noqa: BLE001
            if kind == 'ok':
                acc.violation('pipeline/raises-but-sequencing-does-not', case, repr(e))
            continue
        if kind == 'exc':
            acc.violation('pipeline/sequencing-raises-but-pipeline-does-not', case, repr(want))
            continue
        if not (got == want) or not _eq(refmodel.abstract(got), refmodel.abstract(want)):
            acc.violation(
                'pipeline/differs-from-sequencing',
                case,
                f'pipeline {refmodel.abstract(got).to_json()} sequencing {refmodel.abstract(want).to_json()}',
            )
        acc.outcome('pipe', (pname, got.size))


def check_circuit(n, gates, acc, mode, pol, fam):
    k = len(gates)
    if pol == 'all':
        pols = space.output_policies(n, k, 2, gates=gates)
    elif pol == 'core':
        pols = c03.core_policies(n, k, gates)
    elif pol == 'last2':
        pols = [(n + k - 1,), (n + k - 1, 0), (0, n + k - 1)]
    else:
        pols = [(n + k - 1,)] if n + k else [()]
    labs = space.labels(n, k)
    net0 = space.spec_net(n, gates)
    ref = net0.tables()
    c = space.build(n, gates)
    for outs in pols:
        acc.states += 1
        c.set_outputs([labs[o] for o in outs])
        net = refmodel.Net(net0.inputs, [labs[o] for o in outs], net0.gates)
        if mode in ('post', 'both'):
            post_checks(n, gates, outs, acc, c, net, ref, fam)
            if n + k <= 3 and outs:
                for scheme in (['', '0', 'z', 'a', 'B@x'], ['not_x', 'x', 'new_1', '', 'g']):
                    lab2 = scheme[: n + k]
                    cl = space.build(n, gates, outs, lab2)
                    netl = space.spec_net(n, gates, outs, lab2)
                    post_checks(n, gates, outs, acc, cl, netl, netl.tables(), fam, tag='labels:' + repr(lab2))
            if fam in SCRAMBLE_FAMS or (n + k <= 3):
                # same circuit, gate map stored in reverse (non-topological) order
                c2 = space.scramble_storage(space.build(n, gates, outs))
                post_checks(n, gates, outs, acc, c2, net, ref, fam, tag='scrambled')
        if mode == 'labels' and outs:
            # one node at a time carries an unusual but legal label: the empty string (the only falsy label)
            # or a decimal one
            for pos in range(n + k):
                for odd in ('', '0'):
                    lab2 = list(labs)
                    lab2[pos] = odd
                    cl = space.build(n, gates, outs, lab2)
                    netl = space.spec_net(n, gates, outs, lab2)
                    post_checks(n, gates, outs, acc, cl, netl, netl.tables(), fam, tag='labels:' + repr(lab2))
        if mode in ('pipe', 'both'):
            pipe_checks(n, gates, outs, acc, c)
    acc.sample({**space.spec_json(n, gates, pols[-1]), 'mode': mode})


def dup2_specs(t1, t2):
    """Two-level duplicate structures over three inputs: g1, g2 = t1(a, b) (second one with swapped operands as
    well); h1 = t2(g_i, c), h2 = t2(g_j, c); p = NOT(g_u); k = XOR(h_v, a); m = XOR(h_w, b) for every wiring
    i, j, u, v, w in {1, 2}; outputs: every ordered choice of 2..3 of (m, k, p) and the pairs with h1 / h2."""
    a, b, c_, g1, g2, h1, h2, p_, k_, m_ = range(10)
    outs_list = [o for r in (2, 3) for o in itertools.permutations((m_, k_, p_), r)]
    outs_list += [(m_, h1), (h2, k_), (h1, h2), (h2, h1), (k_, m_, h1)]
    for swap in (False, True):
        for i, j, u, v, w in itertools.product((g1, g2), (g1, g2), (g1, g2), (h1, h2), (h1, h2)):
            gates = (
                (t1, (a, b)), (t1, (b, a) if swap else (a, b)),
                (t2, (i, c_)), (t2, (c_, j) if swap else (j, c_)),
                ('NOT', (u,)), ('XOR', (v, a)), ('XOR', (w, b)),
            )
            for outs in outs_list:
                yield gates, outs


def check_dup2(acc, t1, t2):
    for gates, outs in dup2_specs(t1, t2):
        n = 3
        acc.states += 1
        c = space.build(n, gates, outs)
        net = space.spec_net(n, gates, outs)
        post_checks(n, gates, outs, acc, c, net, net.tables(), 'DUP2')
    acc.sample({**space.spec_json(3, gates, outs), 'mode': 'post'})


def check_deep(acc, pattern, L, storage):
    """postconditions on a chain deeper than the recursion limit that also carries two dead gates"""
    from cirbo.core.circuit import gate as G

    c, _ = space.deep_chain(pattern, L, storage)
    c.emplace_gate('dead0', G.NOT, (f'c{L // 2}',))
    c.emplace_gate('dead1', G.AND, ('dead0', 'x1'))
    net = refmodel.abstract(c)
    spec = tuple(sorted({(t, ()) for t, _ in net.gates.values() if t != 'INPUT'}))
    acc.states += 1
    post_checks(3, spec, (), acc, c, net, net.tables(), 'DEEP', tag=f'deep:{pattern}:{L}:{storage}')


def run_task(task, acc):
    if task.get('kind') == 'dup2':
        return check_dup2(acc, task['t1'], task['t2'])
    if task.get('kind') == 'deep':
        return check_deep(acc, task['pattern'], task['L'], task['storage'])
    alpha = ALPHAS[task['alpha']]
    for gates in space.enum_gates(task['n'], task['k'], alpha, space.prefix_from_task(task)):
        check_circuit(task['n'], gates, acc, task['mode'], task['pol'], task['alpha'])


def replay(case, acc):
    if 'task' in case:
        return run_task(case['task'], acc)
    n, gates, outs = space.spec_from_json(case)
    c = space.build(n, gates, outs)
    net = space.spec_net(n, gates, outs)
    if 'pipeline' in case:
        pipe_checks(n, gates, outs, acc, c, names={case['pipeline']})
    else:
        st = case.get('storage') or ''
        if st.startswith('deep:'):
            _, pat, L, sto = st.split(':')
            return check_deep(acc, pat, int(L), sto)
        if st.startswith('labels:'):
            lab2 = eval(st[7:])  # noqa: S307
            c = space.build(n, gates, outs, lab2)
            net = space.spec_net(n, gates, outs, lab2)
        if st == 'scrambled':
            space.scramble_storage(c)
        post_checks(n, gates, outs, acc, c, net, net.tables(), None, tag=case.get('storage'))
