#!/usr/bin/env python3
"""Copy a sub-agent's seeded change into /verif/seeded/<name>/ with a meta.json skeleton.
usage: adopt_seed.py /tmp/seed_C05_1 [name]"""
import json
import os
import shutil
import sys

src = os.path.abspath(sys.argv[1])
name = sys.argv[2] if len(sys.argv) > 2 else os.path.basename(src).replace('seed_', '')
pid = name.split('_')[0]
dst = os.path.join(os.path.dirname(os.path.dirname(os.path.abspath(__file__))), 'seeded', name)
os.makedirs(dst, exist_ok=True)
for f in ('patch.diff', 'demo.py', 'notes.md'):
    if os.path.exists(os.path.join(src, f)):
        shutil.copy(os.path.join(src, f), os.path.join(dst, f))
notes = open(os.path.join(dst, 'notes.md')).read() if os.path.exists(os.path.join(dst, 'notes.md')) else ''
meta = {
    'property': pid,
    'source': 'independent sub-agent given only the property text and a scratch worktree',
    'needs_to_manifest': notes.strip()[:1500],
    'ran': 'tools/try_seed.py: demo on unchanged tree (must exit 0), git apply on /repo, demo (must exit 1), baseline suite, checks, git checkout',
}
json.dump(meta, open(os.path.join(dst, 'meta.json'), 'w'), indent=1)
print(dst)
