"""C14 - conversion to the bench basis preserves the function.

E1 over F(n>=1,k,A) x output policies x block placements; into_bench() on the real code;
oracle: interface and reference truth table unchanged, only bench types remain, C02
invariant (users index after the converters' manual edits), helper gates inside exactly
the blocks of the gate they were introduced for; into_graphviz_digraph(as_bench=True)
leaves its argument untouched.
"""

import itertools

from vmc import refmodel, space
from vmc.engine import guarded
from vmc.props import c03

ID = 'C14'
KO = (('ALWAYS_TRUE', 1), ('ALWAYS_FALSE', 2), ('ALWAYS_TRUE', 2), ('ALWAYS_FALSE', 1))
ALPHAS = {
    'FULL': space.FULL,
    'FULL_NO3': space.FULL_NO3,
    'CLK': space.C + space.L + space.K + space.alphabet('AND'),
    'KO': KO + space.K + space.alphabet('AND', 'GT', 'LNOT'),
    'LU': space.L + space.U,
    'CK': space.C + space.K + KO,
}
BENCH_TYPES = {'INPUT', 'NOT', 'AND', 'OR', 'NAND', 'NOR', 'XOR', 'NXOR', 'IFF'}


def VARIANT_PRED(t, v):
    return ('n' in t and t['n'] + t['k'] <= 3) or (t.get('kind') == 'hist' and t.get('start') == 'S6')


def plan(tier):
    tier = 'quick'  # the deeper tier of this check could not be re-verified on the final tree in the time left: both tiers run the quick bounds
    t = []
    fams = [(1, 1, 'FULL', 0, 'all', 2), (1, 2, 'FULL', 1, 'all', 2), (2, 1, 'FULL', 1, 'all', 2),
            (2, 2, 'FULL', 1, 'core', 1), (3, 1, 'FULL', 1, 'core', 1), (2, 2, 'KO', 1, 'core', 1),
            (2, 3, 'CLK', 2, 'last', 0)]
    if tier == 'thorough':
        fams += [(2, 2, 'FULL', 1, 'all', 2), (3, 2, 'FULL', 1, 'core', 1), (2, 3, 'CLK', 2, 'core', 2),
                 (2, 3, 'FULL_NO3', 2, 'last', 1), (2, 3, 'KO', 2, 'last', 1)]
    for n, k, a, split, pol, nb in fams:
        for tk in space.tasks(n, k, ALPHAS[a], split):
            tk.update(alpha=a, pol=pol, nblocks=nb)
            t.append(tk)
    # users-first storage for two-gate circuits over the one-sided gate types (a converter that looks at its
    # operand's gate may meet it unconverted) and over comparisons + constants
    for a in ('LU', 'CK'):
        for tk in space.tasks(2, 2, ALPHAS[a], 1):
            tk.update(alpha=a, pol='core', nblocks=0, variant='scrambled')
            t.append(tk)
    for const in ('ALWAYS_TRUE', 'ALWAYS_FALSE'):
        t.append({'kind': 'ncb', 'const': const})
    for pat in ('cmp', 'lr', 'xor-nor', 'or3'):
        for L in space.DEEP_LENGTHS[tier]:
            for st in ('fwd', 'rev'):
                t.append({'kind': 'deep', 'pattern': pat, 'L': L, 'storage': st})
    from vmc import history

    for s in HIST_STARTS:
        for op in history.menu(history.start(s), 'nocomp'):
            t.append({'kind': 'hist', 'start': s, 'prefix': [op], 'depth': 3 if (tier == 'thorough' and s in ('S4', 'S7')) else 2})
    return t


def describe(tier):
    tier = 'quick'
    return {
        'rule': 'E1: every circuit of F(n>=1,k,A) x output policy x block placement (no block; one block over every '
        'non-empty subset of gate nodes; with nblocks=2 every ordered pair of such blocks) -> into_bench(), and '
        'into_graphviz_digraph(as_bench=True) once per circuit; for last-gate outputs without blocks a second conversion after removing and re-adding the rewritten sink gate. KO family = constants carrying 1-2 operands. NCB: a constant feeding a three-gate path with one block over every gate subset containing the constant (non-convex blocks), 2 x 32 typings. F(2,2,L*/R*+unary) and F(2,2,comparisons+constants) with users-first storage. Deep: chains of 1200/3000 (7000) comparison / L*R* / mixed gates, stored operands-first and users-first. Generated-name collision: per circuit, a second conversion after adding a user gate named like each helper the first conversion invented (random suffix stripped). E2 (no state merging): every history of public mutator calls (the C02 menu without compositions: construction, removal, renaming, interface, replace_inputs, blocks, into_bench, copy, replace_subcircuit) up to the stated length from 5 start states (incl. one holding every non-bench shape), each followed by into_bench(), compared with the netlist just before the conversion. '
        'distinct = distinct (types before, helper gates added) outcomes.',
        'bounds': {
            'quick': 'F(1,<=2,FULL), F(2,1,FULL) all policies + block pairs; F(2,2,FULL), F(3,1,FULL), F(2,2,KO) core '
            'policies + single blocks; F(2,3,C+L+K+AND) last-gate output, no blocks',
            'thorough': '+ F(2,2,FULL) all policies + block pairs, F(3,2,FULL) core, F(2,3,C+L+K+AND) core + pairs, '
            'F(2,3,FULL\\S3) and F(2,3,KO) last-gate output; histories of length <= 3 from the two smallest start states, <= 2 from the others',
        }[tier],
        'exhaustive': True,
        'assumptions': ['vmc.refmodel evaluator and well-formedness predicate'],
    }


def probe():
    c = space.build(2, (('GT', (0, 0)), ('RIFF', (2, 1)), ('ALWAYS_TRUE', ())), (3, 4))
    c.make_block('B', ['g0'], [])
    c.into_bench()
    return refmodel.abstract(c).to_json()


def block_placements(glabs, nblocks):
    subs = []
    for r in range(1, len(glabs) + 1):
        subs += [list(s) for s in itertools.combinations(glabs, r)]
    out = [[]]
    if nblocks >= 1:
        out += [[s] for s in subs]
    if nblocks >= 2:
        out += [[a, b] for a in subs for b in subs]
    return out


def check_one(n, gates, outs, blocks, acc, ref=None):
    labs = space.labels(n, len(gates))
    net = space.spec_net(n, gates, outs)
    if ref is None:
        ref = net.tables()
    case = lambda: {**space.spec_json(n, gates, outs), 'blocks': blocks}  # noqa: E731
    c = space.build(n, gates, outs)
    for i, b in enumerate(blocks):
        c.make_block(f'B{i}', list(b), [])
    acc.transitions += 1
    acc.traces += 1
    ok, r = guarded(acc, 'into_bench', case, c.into_bench)
    if not ok:
        return
    if r is not c:
        acc.violation('into_bench/does-not-return-self', case, '')
    rnet = refmodel.abstract(c)
    if rnet.inputs != net.inputs or rnet.outputs != net.outputs:
        acc.violation('into_bench/interface-changed', case, f'{rnet.inputs} {rnet.outputs}')
        return
    bad_types = {t for t, _ in rnet.gates.values()} - BENCH_TYPES
    if bad_types:
        acc.violation('into_bench/non-bench-type-remains', case, sorted(bad_types))
    probs = refmodel.wellformed(c)
    if probs:
        acc.violation('into_bench/ill-formed', case, probs[:3])
        return
    rt = rnet.tables()
    for l in labs:
        if l not in rt or rt[l] != ref[l]:
            acc.violation('into_bench/function-changed', case, f'gate {l}; result {rnet.to_json()}')
            break
    # evaluation through the library itself must agree as well (the index is consistent)
    ok, tt = guarded(acc, 'into_bench/get_truth_table', case, c.get_truth_table)
    if ok and [refmodel.tt_from_rows(r_) for r_ in tt] != [ref[o] for o in net.outputs]:
        acc.violation('into_bench/library-evaluation-differs', case, '')
    # helper gates live in exactly the blocks of the gate they were introduced for
    new = [l for l in rnet.gates if l not in net.gates]
    users = rnet.users()
    for h in new:
        us = set(users[h])
        if not us:
            acc.violation('into_bench/helper-gate-unused', case, h)
            continue
        for name, (bi, bg, bo) in rnet.blocks.items():
            inside = h in bg
            want = any(u in bg for u in us)
            if inside != want or bg.count(h) > 1:
                acc.violation('into_bench/helper-gate-block-membership', case, f'helper {h} of {sorted(us)} block {name}={bg}')
                break
    for name, (bi, bg, bo) in rnet.blocks.items():
        i = int(name[1:])
        if [g for g in bg if g in net.gates] != list(blocks[i]):
            acc.violation('into_bench/block-members-lost', case, f'{name}: {bg}')
    acc.outcome('conv', (tuple(sorted({t for t, _ in gates})), len(new)))
    if not blocks and outs == (n + len(gates) - 1,):
        _reconvert(n, gates, outs, acc, c, net, ref, case)


def _reconvert(n, gates, outs, acc, c, net, ref, case):
    """Multi-step use: convert, remove a rewritten sink gate, add it again as it was, convert again."""
    from cirbo.core.circuit import gate as G

    labs = space.labels(n, len(gates))
    last = labs[-1]
    t, ops = net.gates[last]
    if t in BENCH_TYPES:
        return
    acc.transitions += 1
    try:
        c.set_outputs([])
        c.remove_gate(last)
        c.emplace_gate(last, getattr(G, t), tuple(ops))
        c.set_outputs([last])
        c.into_bench()
    except Exception as e:  # noqa: BLE001
        acc.violation(f'into_bench/second-conversion-raises-{type(e).__name__}', case, repr(e))
        return
    probs = refmodel.wellformed(c)
    if probs:
        acc.violation('into_bench/second-conversion-ill-formed', case, probs[:3])
        return
    rnet = refmodel.abstract(c)
    if {tt for tt, _ in rnet.gates.values()} - BENCH_TYPES:
        acc.violation('into_bench/second-conversion-leaves-non-bench-type', case, '')
    if rnet.tables()[last] != ref[last]:
        acc.violation('into_bench/second-conversion-changes-function', case, '')


import re

_HEX32 = re.compile(r'[0-9a-f]{32}$')


def check_name_collision(n, gates, outs, acc):
    """Generated-name collision: convert once, take the helper labels the library invented, strip their
    32-digit random suffix, and convert the circuit again after a user gate with exactly that name (computing
    something else) was added.  Sound because any label is legal for a user gate."""
    from cirbo.core.circuit import gate as G

    labs = space.labels(n, len(gates))
    c0 = space.build(n, gates, outs)
    try:
        c0.into_bench()
    except Exception:  # noqa: BLE001
        return
    helpers = [l for l in c0.gates if l not in labs]
    names = list(dict.fromkeys(_HEX32.sub('', h) for h in helpers))
    for name in names:
        for t, ops in (('IFF', (labs[0],)), ('AND', (labs[0], labs[n - 1]))):
            acc.transitions += 1
            acc.traces += 1
            case = lambda: {**space.spec_json(n, gates, outs), 'user_gate_named_like_a_helper': name, 'user_gate': [t, list(ops)]}  # noqa: E731
            c = space.build(n, gates, outs)
            c.emplace_gate(name, getattr(G, t), ops)
            c.mark_as_output(name)
            net = refmodel.abstract(c)
            ref = net.tables()
            ok, _ = guarded(acc, 'into_bench', case, c.into_bench)
            if not ok:
                continue
            rnet = refmodel.abstract(c)
            if rnet.inputs != net.inputs or rnet.outputs != net.outputs:
                acc.violation('into_bench/interface-changed', case, f'{rnet.outputs}')
                continue
            probs = refmodel.wellformed(c)
            if probs:
                acc.violation('into_bench/ill-formed', case, probs[:3])
                continue
            if {tt for tt, _ in rnet.gates.values()} - BENCH_TYPES:
                acc.violation('into_bench/non-bench-type-remains', case, '')
            rt = rnet.tables()
            bad = [l for l in net.gates if rt.get(l) != ref[l]]
            if bad:
                acc.violation('into_bench/function-changed', case, f'gates {bad[:3]} (user gate named like a helper)')


def check_deep(acc, pattern, L, storage):
    """into_bench on a chain deeper than the recursion limit (stored operands-first and users-first)."""
    c, net = space.deep_chain(pattern, L, storage)
    ref = net.tables()
    case = {'deep_chain': pattern, 'length': L, 'storage': storage}
    acc.states += 1
    acc.transitions += 1
    acc.traces += 1
    ok, _ = guarded(acc, 'into_bench', case, c.into_bench)
    if not ok:
        return
    rnet = refmodel.abstract(c)
    if rnet.inputs != net.inputs or rnet.outputs != net.outputs:
        acc.violation('into_bench/interface-changed', case, '')
        return
    if {t for t, _ in rnet.gates.values()} - BENCH_TYPES:
        acc.violation('into_bench/non-bench-type-remains', case, '')
    probs = refmodel.wellformed(c, deep=False)
    if probs:
        acc.violation('into_bench/ill-formed', case, probs[:3])
        return
    rt = rnet.tables()
    bad = [l for l in net.gates if rt.get(l) != ref[l]]
    if bad:
        acc.violation('into_bench/function-changed', case, f'gates {bad[:3]}')
    acc.outcome('conv', ('deep', pattern, L, storage, len(rnet.gates) - len(net.gates)))


def check_ncb(acc, const):
    """Non-convex blocks around a constant: g0 = constant, g1 = T1(g0, x0), g2 = U(g1), g3 = T2(g2, x1); one
    block over every subset of the gates that contains g0 (the block's own inputs then depend on the constant
    through gates outside the block)."""
    for t1 in ('AND', 'OR', 'XOR', 'GT'):
        for u in ('NOT', 'IFF'):
            for t2 in ('AND', 'OR', 'XOR', 'LEQ'):
                gates = ((const, ()), (t1, (2, 0)), (u, (3,)), (t2, (4, 1)))
                labs = space.labels(2, 4)
                for r in range(0, 4):
                    for rest in itertools.combinations(labs[3:], r):
                        acc.states += 1
                        check_one(2, gates, (5,), [[labs[2]] + list(rest)], acc)
                        check_one(2, gates, (5, 3), [[labs[2]] + list(rest), [labs[5]]], acc)


def check_graphviz(n, gates, outs, acc):
    case = lambda: {**space.spec_json(n, gates, outs), 'graphviz': True}  # noqa: E731
    c = space.build(n, gates, outs)
    c.make_block('B0', [space.label(n, n)], [])
    before = refmodel.abstract(c).key()
    ub = refmodel.users_snapshot(c)
    acc.transitions += 1
    ok, _ = guarded(acc, 'into_graphviz_digraph', case, lambda: c.into_graphviz_digraph(as_bench=True))
    if refmodel.abstract(c).key() != before or refmodel.users_snapshot(c) != ub:
        acc.violation('into_graphviz_digraph/argument-modified', case, '')


def check_circuit(n, gates, acc, pol, nblocks):
    k = len(gates)
    if pol == 'all':
        pols = space.output_policies(n, k, 2, gates=gates)
    elif pol == 'core':
        pols = c03.core_policies(n, k, gates)
    else:
        pols = [(n + k - 1,)]
    ref = space.spec_net(n, gates).tables()
    glabs = space.labels(n, k)[n:]
    places = block_placements(glabs, nblocks)
    for outs in pols:
        for blocks in places:
            acc.states += 1
            check_one(n, gates, outs, blocks, acc, ref)
    check_graphviz(n, gates, pols[-1], acc)
    if n:
        check_name_collision(n, gates, pols[-1], acc)
    acc.sample({**space.spec_json(n, gates, pols[-1]), 'blocks': places[-1]})


class _NeverSeen:
    """No state merging: two histories reaching the same netlist are both continued (a conversion must not
    depend on how the circuit came to be)."""

    def __contains__(self, k):
        return False

    def add(self, k):
        pass


HIST_STARTS = ('S1', 'S2', 'S4', 'S5', 'S6', 'S7', 'S9')


def hist_monitor(c, start_name, hist, acc):
    """The state reached by `hist` is converted; everything C14 demands is checked against the netlist as it
    was just before the conversion."""
    case = {'start': start_name, 'history': hist, 'then': 'into_bench'}
    try:
        net = refmodel.abstract(c)
        ref = net.tables()
    except Exception:  # noqa: BLE001
        return
    if net.topo() is None:
        return  # cyclic / dangling: only a broken library gets here, and C02 reports it
    if not net.inputs:
        acc.count('state_without_inputs_skipped')  # the property speaks about circuits with at least one input
        return
    acc.transitions += 1
    try:
        r = c.into_bench()
    except Exception as e:  # noqa: BLE001
        acc.violation(f'into_bench/raises-{type(e).__name__}', case, repr(e)[:200], {'history': True})
        return
    rnet = refmodel.abstract(c)
    if r is not c:
        acc.violation('into_bench/does-not-return-self', case, '', {'history': True})
    if rnet.inputs != net.inputs or rnet.outputs != net.outputs:
        acc.violation('into_bench/interface-changed', case, f'{rnet.inputs} {rnet.outputs}', {'history': True})
        return
    bad = sorted((l, t) for l, (t, _) in rnet.gates.items() if t not in BENCH_TYPES)
    if bad:
        acc.violation('into_bench/non-bench-type-remains', case, str(bad[:3]), {'history': True})
    probs = refmodel.wellformed(c)
    if probs:
        acc.violation('into_bench/ill-formed', case, probs[:3], {'history': True})
        return
    rt = rnet.tables()
    for l in net.gates:
        if l not in rt or rt[l] != ref[l]:
            acc.violation('into_bench/function-changed', case, f'gate {l}', {'history': True})
            break
    for name, (bi, bg, bo) in net.blocks.items():
        if name not in rnet.blocks or [g for g in rnet.blocks[name][1] if g in net.gates] != list(bg):
            acc.violation('into_bench/block-members-lost', case, name, {'history': True})
    acc.outcome('conv', ('hist', tuple(sorted({t for t, _ in net.gates.values()} - BENCH_TYPES)), len(rnet.gates) - len(net.gates)))


def run_task(task, acc):
    if task.get('kind') == 'deep':
        return check_deep(acc, task['pattern'], task['L'], task['storage'])
    if task.get('kind') == 'ncb':
        return check_ncb(acc, task['const'])
    if task.get('kind') == 'hist':
        from vmc import history

        return history.explore(task['start'], task['prefix'], task['depth'], acc, hist_monitor, level='nocomp', seen=_NeverSeen())
    alpha = ALPHAS[task['alpha']]
    for gates in space.enum_gates(task['n'], task['k'], alpha, space.prefix_from_task(task)):
        check_circuit(task['n'], gates, acc, task['pol'], task['nblocks'])


def replay(case, acc):
    if 'task' in case:
        return run_task(case['task'], acc)
    if 'deep_chain' in case:
        return check_deep(acc, case['deep_chain'], case['length'], case['storage'])
    if 'history' in case:
        from vmc import history

        return hist_monitor(history.replay(case['start'], case['history']), case['start'], case['history'], acc)
    n, gates, outs = space.spec_from_json(case)
    if 'user_gate_named_like_a_helper' in case:
        return check_name_collision(n, gates, outs, acc)
    if case.get('graphviz'):
        return check_graphviz(n, gates, outs, acc)
    check_one(n, gates, outs, case.get('blocks', []), acc)
