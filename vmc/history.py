"""E2 - explicit-state search over histories of public mutator calls.

A state is the real Circuit reached by replaying a history (list of JSON-able ops) on a
fresh start circuit.  States are canonicalised (ordered gate map, interface lists, users
multisets incl. the raw index, blocks) and deduplicated; monitors run on every new state.
Calls that raise end that branch (the properties quantify over calls that return).
"""

import copy
import itertools

from vmc import refmodel

TYPES_MENU = ('NOT', 'AND', 'GT', 'ALWAYS_TRUE', 'INPUT')


# -- the attached ("other") circuits ------------------------------------------------

def other(name):
    from cirbo.core.circuit import Circuit, gate as G

    c = Circuit()
    if name == 'O1':  # NOT buffer
        c.add_inputs(['a'])
        c.emplace_gate('n', G.NOT, ('a',))
        c.set_outputs(['n'])
    elif name == 'O2':  # 2-in/1-out AND
        c.add_inputs(['a', 'b'])
        c.emplace_gate('o', G.AND, ('a', 'b'))
        c.set_outputs(['o'])
    elif name == 'O3':  # 1-in/2-out, one output is its input
        c.add_inputs(['a'])
        c.emplace_gate('p', G.NOT, ('a',))
        c.set_outputs(['p', 'a'])
    elif name == 'O5':  # buffer
        c.add_inputs(['a'])
        c.emplace_gate('i', G.IFF, ('a',))
        c.set_outputs(['i'])
    elif name == 'O6':  # GT
        c.add_inputs(['a', 'b'])
        c.emplace_gate('t', G.GT, ('a', 'b'))
        c.set_outputs(['t'])
    elif name == 'O7':  # two outputs
        c.add_inputs(['a', 'b'])
        c.emplace_gate('u', G.AND, ('a', 'b'))
        c.emplace_gate('v', G.XOR, ('a', 'b'))
        c.set_outputs(['u', 'v'])
    elif name == 'O8':  # no inputs
        c.emplace_gate('k', G.ALWAYS_TRUE, ())
        c.emplace_gate('w', G.NOT, ('k',))
        c.set_outputs(['w', 'k'])
    elif name == 'O9':  # labels that already start with a block prefix
        c.add_inputs(['B@a', 'C@a'])
        c.emplace_gate('B@n', G.GT, ('B@a', 'C@a'))
        c.emplace_gate('n', G.NOT, ('B@n',))
        c.set_outputs(['n', 'B@n'])
    elif name == 'O10':  # gates that read the same operand twice (also among three)
        c.add_inputs(['a', 'b'])
        c.emplace_gate('w', G.NAND, ('a', 'a'))
        c.emplace_gate('z', G.AND, ('w', 'b', 'w'))
        c.emplace_gate('y', G.LT, ('z', 'z'))
        c.set_outputs(['y', 'w'])
    elif name == 'O4':  # with an internal block and a dead gate
        c.add_inputs(['a', 'b'])
        c.emplace_gate('q', G.GT, ('a', 'b'))
        c.emplace_gate('d', G.NOT, ('q',))
        c.emplace_gate('r', G.XOR, ('q', 'a'))
        c.set_outputs(['r'])
        c.make_block('inner', ['q'], ['q'])
    else:
        raise KeyError(name)
    return c


OTHER_OVERRIDE = {}


def _oth(name):
    """attached circuit instance for a call (a monitor may pin the instance to inspect it afterwards)"""
    from vmc import space

    return OTHER_OVERRIDE.get(name) or space.variant(other(name))


def other_net(name):
    return refmodel.abstract(other(name))


# -- start states -------------------------------------------------------------------

def start(name):
    from cirbo.core.circuit import Circuit, gate as G

    c = Circuit()
    if name == 'S0':
        return c
    if name == 'S1':
        c.add_inputs(['x0', 'x1'])
        c.emplace_gate('g0', G.AND, ('x0', 'x1'))
        c.set_outputs(['g0'])
        return c
    if name == 'S2':
        c.add_inputs(['x0', 'x1'])
        c.emplace_gate('g0', G.NOT, ('x0',))
        c.emplace_gate('g1', G.NOT, ('g0',))
        c.emplace_gate('g2', G.AND, ('x1', 'x1'))
        c.set_outputs(['g1', 'x0'])
        c.make_block('K', ['g0'], ['g0'])
        return c
    if name == 'S3':
        c = start('S1')
        c.connect_circuit(other('O1'), ['x0'], ['n'], right_connect=True, name='R')
        return c
    if name == 'S4':
        c.add_inputs(['x0'])
        c.emplace_gate('g0', G.GT, ('x0', 'x0'))
        c.emplace_gate('g1', G.LNOT, ('g0', 'x0'))
        c.set_outputs(['g1', 'g1'])
        return c
    if name == 'S5':
        c.add_inputs(['x0', 'x1', 's'])
        c.emplace_gate('g0', G.AND, ('x0', 'x1'))
        c.emplace_gate('g1', G.LNOT, ('g0', 'g0'))
        c.set_outputs(['g1', 'g0'])
        c.make_block('K', ['g0'], ['g0', 'x0'], ['s', 'x0'])
        return c
    if name == 'S6':  # every non-bench shape at once (comparisons, LNOT/RIFF, constants with and without operands)
        c.add_inputs(['x0', 'x1'])
        c.emplace_gate('g0', G.GT, ('x0', 'x1'))
        c.emplace_gate('g1', G.ALWAYS_TRUE, ())
        c.emplace_gate('g2', G.RIFF, ('g0', 'x1'))
        c.emplace_gate('g3', G.LEQ, ('g2', 'g1'))
        c.set_outputs(['g3', 'g0'])
        c.make_block('K', ['g0', 'g2'], ['g2'])
        return c
    if name == 'S9':  # fan-out two below the outputs, a constant that carries operands
        c.add_inputs(['x0', 'x1'])
        c.emplace_gate('g0', G.AND, ('x0', 'x1'))
        c.emplace_gate('g1', G.NOT, ('g0',))
        c.emplace_gate('g2', G.OR, ('g0', 'x1'))
        c.emplace_gate('g3', G.XOR, ('g1', 'g2'))
        c.emplace_gate('g4', G.ALWAYS_FALSE, ('g1', 'x0'))
        c.emplace_gate('g5', G.GEQ, ('g4', 'g2'))
        c.set_outputs(['g3', 'g0', 'g5'])
        return c
    if name == 'S8':  # no inputs at all: everything hangs off constants
        c.emplace_gate('k0', G.ALWAYS_TRUE, ())
        c.emplace_gate('p', G.NOT, ('k0',))
        c.emplace_gate('q', G.AND, ('p', 'k0'))
        c.emplace_gate('r', G.XOR, ('q', 'p'))
        c.set_outputs(['r', 'q'])
        return c
    if name == 'S7':  # repeated operands in wide and asymmetric gates
        c.add_inputs(['x0', 'x1'])
        c.emplace_gate('g0', G.AND, ('x0', 'x1', 'x0'))
        c.emplace_gate('g1', G.LT, ('g0', 'g0'))
        c.emplace_gate('g2', G.OR, ('x1', 'x1', 'g1'))
        c.emplace_gate('g3', G.LIFF, ('x1', 'x1'))
        c.set_outputs(['g2', 'g3'])
        return c
    raise KeyError(name)


START_NAMES = ('S0', 'S1', 'S2', 'S3', 'S4', 'S5', 'S8')


# -- operations ---------------------------------------------------------------------

def apply_op(c, op):
    """Apply one JSON-able op to the real circuit; returns the (possibly new) circuit."""
    from cirbo.core.circuit import Gate, gate as G

    from vmc import space

    k = op[0]
    if space.VARIANT[0] == 'fresh-labels':
        # every label is passed as a string object of its own (equal to, never identical with, the stored one)
        op = [op[0]] + [x if (k in ('emplace_gate', 'add_gate') and i == 1) else _fresh_op(x) for i, x in enumerate(op[1:])]
    if k == 'emplace_gate':
        c.emplace_gate(op[1], getattr(G, op[2]), tuple(op[3]))
    elif k == 'add_gate':
        c.add_gate(Gate(op[1], getattr(G, op[2]), tuple(op[3])))
    elif k == 'add_inputs':
        c.add_inputs(list(op[1]))
    elif k == 'remove_gate':
        c.remove_gate(op[1])
    elif k == 'rename_gate':
        c.rename_gate(op[1], op[2])
    elif k == 'mark_as_output':
        c.mark_as_output(op[1])
    elif k in ('set_outputs', 'set_inputs', 'order_inputs', 'order_outputs'):
        # the list stays the caller's: it is emptied right after the call, which must not reach the circuit
        arg = list(op[1])
        getattr(c, k)(arg)
        arg.clear()
    elif k == 'set_inputs_live':  # the caller hands the circuit's own (live) list back
        c.set_inputs(c.inputs)
    elif k == 'set_outputs_live':
        c.set_outputs(c.outputs)
    elif k == 'order_inputs_live':
        c.order_inputs(c.inputs)
    elif k == 'order_outputs_live':
        c.order_outputs(c.outputs)
    elif k == 'replace_inputs_live':
        c.replace_inputs(c.inputs, [])
    elif k == 'replace_inputs':
        a1, a2 = list(op[1]), list(op[2])
        c.replace_inputs(a1, a2)
        a1.clear()
        a2.clear()
    elif k == 'connect_circuit':
        a1, a2 = list(op[2]), list(op[3])
        c.connect_circuit(_oth(op[1]), a1, a2, right_connect=op[4], name=op[5], add_prefix=op[6])
        a1.clear()
        a2.clear()
    elif k == 'connect_left':
        c.connect_left(_oth(op[1]), list(op[2]), name=op[3], add_prefix=op[4])
    elif k == 'connect_right':
        c.connect_right(_oth(op[1]), list(op[2]), name=op[3], add_prefix=op[4])
    elif k == 'connect_inputs':
        c.connect_inputs(_oth(op[1]), name=op[2], add_prefix=op[3])
    elif k == 'extend_circuit':
        c.extend_circuit(_oth(op[1]), right_connect=op[2], name=op[3], add_prefix=op[4])
    elif k == 'extend_circuit_x':  # explicit connector lists (possibly empty)
        c.extend_circuit(_oth(op[1]), this_connectors=list(op[2]), other_connectors=list(op[3]), right_connect=op[4], name=op[5], add_prefix=op[6])
    elif k == 'add_circuit':
        c.add_circuit(_oth(op[1]), name=op[2], add_prefix=op[3])
    elif k == 'make_block':
        a1, a2, a3 = list(op[2]), list(op[3]), None if op[4] is None else list(op[4])
        c.make_block(op[1], a1, a2, a3)
        a1.clear()
        a2.clear()
        if a3 is not None:
            a3.clear()
    elif k == 'make_block_from_slice':
        c.make_block_from_slice(op[1], list(op[2]), list(op[3]))
    elif k == 'delete_block':
        c.delete_block(op[1])
    elif k == 'remove_block':
        c.remove_block(op[1])
    elif k == 'into_bench':
        c.into_bench()
    elif k == 'copy':
        c = copy.copy(c)
    elif k == 'replace_subcircuit':
        sub = refmodel.Net.from_json(op[1])
        from vmc import space

        c.replace_subcircuit(space.build_from_net(sub), dict(op[2]), dict(op[3]))
    else:
        raise KeyError(k)
    return c


def _fresh_op(op):
    from vmc import space

    if isinstance(op, str):
        return space.fresh_str(op)
    if isinstance(op, list):
        return [_fresh_op(x) for x in op]
    if isinstance(op, dict):
        return {k: _fresh_op(v) for k, v in op.items()}
    return op


def replay(start_name, hist):
    from vmc import boot, space

    boot.uuid_counter.reset()  # fresh-label source restarts with every replay (determinism)
    c = space.variant(start(start_name))
    for op in hist:
        c = apply_op(c, op)
    return c


def warm_up(c):
    """Query the circuit before it is mutated, so that anything the library might remember between calls
    (orders, tables) exists and would have to be invalidated by the mutation."""
    try:
        if refmodel.abstract(c).topo() is None:
            return  # a cyclic circuit (only a broken library produces one): its evaluation would not terminate
        c.evaluate_full_circuit({i: False for i in c.inputs})
        list(c.top_sort(inverse=True))
        list(c.top_sort())
        c.get_truth_table()
        for b in c.blocks.values():
            b.into_circuit()
    except Exception:  # noqa: BLE001
        pass


def canon(c):
    """Canonical state: everything a future call can observe."""
    net = refmodel.abstract(c)
    raw = getattr(c, '_gate_to_users', None)  # finer than public observation; optional
    raw_users = tuple(sorted((k, tuple(sorted(v))) for k, v in raw.items() if v)) if isinstance(raw, dict) else ()
    return (net.key(), raw_users)


def _fresh(labels, base):
    i = 0
    while f'{base}{i}' in labels:
        i += 1
    return f'{base}{i}'


def menu(c, level='full'):
    """Finite menu of public calls for the current state (valid and invalid arguments)."""
    labs = list(c.gates)
    ins = list(c.inputs)
    outs = list(c.outputs)
    m = []
    fresh = _fresh(labs, 'n')
    # construction
    for t in TYPES_MENU:
        ar = {'NOT': 1, 'AND': 2, 'GT': 2, 'ALWAYS_TRUE': 0, 'INPUT': 0}[t]
        for ops in itertools.product(labs, repeat=ar):
            m.append(['emplace_gate', fresh, t, list(ops)])
    if labs:
        m.append(['add_gate', fresh, 'AND', [labs[0], labs[-1]]])
        m.append(['add_gate', fresh, 'XOR', [labs[-1], labs[-1], labs[0]]])
        m.append(['emplace_gate', labs[0], 'NOT', [labs[0]]])  # existing label: must raise
    m.append(['emplace_gate', fresh, 'NOT', ['zz_missing']])  # missing operand: must raise
    m.append(['add_inputs', [_fresh(labs, 'i')]])
    # removal / renaming / interface
    for l in labs:
        m.append(['remove_gate', l])
        m.append(['rename_gate', l, _fresh(labs, 'r')])
        m.append(['mark_as_output', l])
    if len(labs) >= 2:
        m.append(['rename_gate', labs[0], labs[1]])  # must raise
    for ln in (0, 1, 2):
        for seq in itertools.product(labs, repeat=ln):
            m.append(['set_outputs', list(seq)])
    for perm in itertools.permutations(ins):
        m.append(['set_inputs', list(perm)])
    if ins:
        m.append(['set_inputs', ins[:-1]])  # incomplete: must raise
    for l in ins:
        m.append(['order_inputs', [l]])
    if len(ins) >= 2:
        m.append(['order_inputs', list(reversed(ins))])
    for l in dict.fromkeys(outs):
        m.append(['order_outputs', [l]])
    if len(outs) >= 2:
        m.append(['order_outputs', list(reversed(outs))])
    m += [['set_inputs_live'], ['set_outputs_live'], ['order_inputs_live'], ['order_outputs_live']]
    if ins:
        m.append(['replace_inputs_live'])
    for assign in itertools.product((None, True, False), repeat=len(ins)):
        if all(a is None for a in assign):
            continue
        m.append(['replace_inputs', [l for l, a in zip(ins, assign) if a is True], [l for l, a in zip(ins, assign) if a is False]])
    # blocks
    bfresh = _fresh(list(c.blocks), 'B')
    nonin = [l for l in labs if l not in ins]
    for r in (1, 2):
        for sub in itertools.combinations(nonin, r):
            m.append(['make_block', bfresh, list(sub), [sub[-1]], None])
    if nonin and ins:
        for i_ in ins:
            m.append(['make_block', bfresh, [nonin[0]], [i_], [i_]])
    for g in nonin:
        m.append(['make_block_from_slice', bfresh, ins, [g]])
        ops_ = list(c.get_gate(g).operands)
        if ops_:
            m.append(['make_block_from_slice', bfresh, list(dict.fromkeys(ops_)), [g]])
    for b in c.blocks:
        m.append(['delete_block', b])
        m.append(['remove_block', b])
    m.append(['into_bench'])
    m.append(['copy'])
    # replace_subcircuit: the cone of every gate over its own operands, replaced by a
    # double-negated copy (boundary labels kept) and by a fresh-label copy
    for g in nonin:
        t, ops_ = c.get_gate(g).gate_type.name, list(c.get_gate(g).operands)
        I = list(dict.fromkeys(ops_))
        if not I or g in I:
            continue
        sub = {'inputs': I, 'outputs': [g], 'gates': [[i, 'INPUT', []] for i in I] + [['zz_in', t, ops_], ['zz_n', 'NOT', ['zz_in']], [g, 'NOT', ['zz_n']]], 'blocks': {}}
        m.append(['replace_subcircuit', sub, [[i, i] for i in I], [[g, g]]])
        # two outputs where one feeds the other inside the replacement (kept labels)
        for u in dict.fromkeys(c.get_gate_users(g)):
            if u == g or u in I:
                continue
            tu, ops_u = c.get_gate(u).gate_type.name, list(c.get_gate(u).operands)
            I2 = list(dict.fromkeys(I + [o for o in ops_u if o != g]))
            if g in I2 or u in I2:
                continue
            sub3 = {'inputs': I2, 'outputs': [g, u], 'gates': [[i, 'INPUT', []] for i in I2] + [[g, t, ops_], [u, tu, ops_u]], 'blocks': {}}
            m.append(['replace_subcircuit', sub3, [[i, i] for i in I2], [[g, g], [u, u]]])
        sub2 = {'inputs': ['R_' + i for i in I], 'outputs': ['R_' + g], 'gates': [['R_' + i, 'INPUT', []] for i in I] + [['R_' + g, t, ['R_' + o for o in ops_]]], 'blocks': {}}
        m.append(['replace_subcircuit', sub2, [[i, 'R_' + i] for i in I], [[g, 'R_' + g]]])
        # a replacement that would close a loop: the new g reads one of its own users (must be refused)
        for u in list(dict.fromkeys(c.get_gate_users(g)))[:2]:
            if u == g or u in I:
                continue
            I3 = I + [u]
            sub4 = {'inputs': I3, 'outputs': [g], 'gates': [[i, 'INPUT', []] for i in I3] + [['zz_m', t, ops_], [g, 'XOR', ['zz_m', u, u]]], 'blocks': {}}
            m.append(['replace_subcircuit', sub4, [[i, i] for i in I3], [[g, g]]])
    # composition
    if level != 'nocomp':
        m += composition_menu(c, level)
    return m


def composition_menu(c, level='full', others=('O1', 'O2', 'O3')):
    if level == 'full':
        others = tuple(others) + ('O4',)
    labs = list(c.gates)
    ins = list(c.inputs)
    m = []
    bname = _fresh(list(c.blocks), 'C')
    namings = [('', True), (bname, True), (bname, False)] if level == 'full' else [(bname, True)]
    for o in others:
        on = other_net(o)
        oin = on.inputs
        ogates = list(on.gates)
        heavy = o in ('O4', 'O10')  # larger attached circuits: one naming option, left-connections complete or empty
        for name, pref in (namings[1:2] if heavy and len(namings) > 1 else namings):
            # left: every duplicate-free tuple of other's inputs (incl. partial) x every tuple of base gates
            for r in ((0, len(oin)) if heavy else range(0, len(oin) + 1)):
                for oc in itertools.permutations(oin, r):
                    for tc in itertools.product(labs, repeat=r):
                        m.append(['connect_circuit', o, list(tc), list(oc), False, name, pref])
            # right: every duplicate-free tuple of base inputs x every tuple of other's gates
            for r in range(1, min(len(ins), 2) + 1):
                for tc in itertools.permutations(ins, r):
                    for oc in itertools.product(ogates, repeat=r):
                        m.append(['connect_circuit', o, list(tc), list(oc), True, name, pref])
            if len(labs) >= len(oin):
                m.append(['connect_left', o, labs[-len(oin):] if oin else [], name, pref])
            if len(ins) <= 2:
                for oc in itertools.product(ogates, repeat=len(ins)):
                    m.append(['connect_right', o, list(oc), name, pref])
            m.append(['connect_inputs', o, name, pref])
            m.append(['extend_circuit', o, False, name, pref])
            m.append(['extend_circuit', o, True, name, pref])
            m.append(['add_circuit', o, name, pref])
    if labs:
        m.append(['connect_circuit', 'O1', [labs[0], labs[0]], ['a', 'a'], False, '', True])  # duplicate: must raise
        m.append(['connect_circuit', 'O1', [labs[0]], ['n'], False, '', True])  # non-input connector: must raise
    return m


def explore(start_name, prefix, depth, acc, monitor, level='full', menu_fn=None, seen=None):
    """Breadth-first search below `prefix` (local deduplication; BFS so that a state is
    first reached, hence expanded, at its minimal depth) up to history length `depth`.
    monitor(circuit, start_name, hist, acc) is called on every new state."""
    menu_fn = menu_fn or menu
    seen = seen if seen is not None else set()
    frontier = [list(prefix)]
    while frontier:
        nxt = []
        for hist in frontier:
            try:
                c = replay(start_name, hist)
            except Exception:  # noqa: BLE001
                acc.count('prefix_raises')
                continue
            if len(hist) >= depth:
                continue
            lv = level
            if isinstance(level, (list, tuple)):
                lv = level[min(len(hist), len(level) - 1)]
            for op in menu_fn(c, lv):
                acc.transitions += 1
                h2 = hist + [op]
                try:
                    c2 = replay(start_name, hist)
                    warm_up(c2)
                    c2 = apply_op(c2, op)
                except Exception as e:  # noqa: BLE001
                    acc.count(f'raises:{op[0]}:{type(e).__name__}')
                    continue
                acc.count(f'ok:{op[0]}')
                try:
                    key = canon(c2)
                except Exception as e:  # noqa: BLE001
                    acc.violation(f'{op[0]}/state-unreadable', {'start': start_name, 'history': h2}, repr(e))
                    continue
                if key in seen:
                    continue
                seen.add(key)
                acc.states += 1
                acc.outcome('state', hash(key))
                acc.traces += 1
                monitor(c2, start_name, h2, acc)
                try:
                    cyclic = refmodel.abstract(c2).topo() is None
                except Exception:  # noqa: BLE001
                    cyclic = True
                if len(h2) < depth and not cyclic:  # ill-formed states are reported by the monitor, not expanded
                    nxt.append(h2)
        frontier = nxt
