"""C12 - all function representations answer every protocol query alike and correctly.

Every function {0,1}^n -> {0,1}^m for small (n,m) in three representations (TruthTable,
PyFunction in three constructions, Circuit as mux tree and as every small E1 circuit);
every protocol query with every index argument; models with don't-cares x every
completion; integer wrappers; index helpers.  Oracle: definitions computed from the table.
"""

import itertools

from vmc import refmodel, space
from vmc.props import c19

ID = 'C12'


# -- definitions from the table (table = list of m ints, bit j = value at assignment j) ----

def d_const(t, n):
    return t == 0 or t == (1 << (1 << n)) - 1


def d_monotone(t, n, inverse):
    rows = [(t >> j) & 1 for j in range(1 << n)]
    if inverse:
        return all(rows[j] >= rows[j + 1] for j in range(len(rows) - 1))
    return all(rows[j] <= rows[j + 1] for j in range(len(rows) - 1))


def weight_classes(n):
    cl = {}
    for j in range(1 << n):
        cl.setdefault(bin(j).count('1'), []).append(j)
    return cl


def d_symmetric_multi(ts, n, neg=0):
    """outputs ts symmetric after XOR-ing the assignment index with neg."""
    for js in weight_classes(n).values():
        vals = {tuple((t >> (j ^ neg)) & 1 for t in ts) for j in js}
        if len(vals) > 1:
            return False
    return True


def d_dep(t, n, i):
    bit = 1 << (n - 1 - i)
    return any(((t >> j) & 1) != ((t >> (j ^ bit)) & 1) for j in range(1 << n))


def d_eq_input(t, n, i, negate):
    iv = refmodel.input_vectors_cached(n)[i]
    if negate:
        iv ^= (1 << (1 << n)) - 1
    return t == iv


def neg_to_index(neg, n):
    j = 0
    for i, b in enumerate(neg):
        if b:
            j |= 1 << (n - 1 - i)
    return j


# -- representations ---------------------------------------------------------------------

def rows_of(t, n):
    return [bool((t >> j) & 1) for j in range(1 << n)]


def make_positional(n, fn):
    params = ', '.join(f'a{i}' for i in range(n))
    return eval(f'lambda {params}: _fn([{params}])', {'_fn': fn})  # noqa: S307


def representations(ts, n):
    from cirbo.core.python_function import PyFunction
    from cirbo.core.truth_table import TruthTable

    m = len(ts)
    table = [rows_of(t, n) for t in ts]

    def lookup(args):
        j = 0
        for b in args:
            j = (j << 1) | int(bool(b))
        return [table[h][j] for h in range(m)]

    reps = {}
    reps['TruthTable'] = TruthTable([list(r) for r in table])
    reps['TruthTable(str)'] = TruthTable([''.join('1' if b else '0' for b in r) for r in table])
    reps['PyFunction'] = PyFunction(lookup, input_size=n)
    reps['PyFunction(output_size)'] = PyFunction(lookup, input_size=n, output_size=m)
    def lookup_int(args):
        return [int(v) for v in lookup(args)]

    reps['PyFunction(int-valued)'] = PyFunction(lookup_int, input_size=n)
    if n >= 1:
        reps['PyFunction.from_positional'] = PyFunction.from_positional(make_positional(n, lookup))
    mx = c19.mux_net([rows_of(t, n) for t in ts], n, 'M_')
    reps['Circuit(mux)'] = space.build_from_net(mx)
    return reps


def check_function(acc, ts, n, reps, tag):
    """All protocol queries of every representation against the definitions."""
    m = len(ts)
    full = (1 << (1 << n)) - 1
    asg = refmodel.assignments(n)
    case = lambda q: (lambda: {'n': n, 'tables': [refmodel.tt_str(t, n) for t in ts], 'query': q, 'family': tag})  # noqa: E731
    acc.states += 1
    subsets = [list(s) for r in range(1, m + 1) for s in itertools.combinations(range(m), r)]
    if m == 2:
        subsets += [[1, 0], [0, 0]]
    want_neg = {}
    for s in subsets:
        want_neg[tuple(s)] = [neg for neg in itertools.product((False, True), repeat=n)
                              if d_symmetric_multi([ts[i] for i in s], n, neg_to_index(neg, n))]
    answers = {}
    for name, f in reps.items():
        acc.traces += 1
        feats = {'representation': name.split('(')[0].split('.')[0]}

        def q(query, want, fn, *args, **kw):
            acc.transitions += 1
            try:
                got = fn(*args, **kw)
            except Exception as e:  # noqa: BLE001
                acc.violation(f'{name}.{query.split("(")[0]}/raises-{type(e).__name__}', case(query), repr(e), feats)
                return None
            answers.setdefault(query, {})[name] = got
            if want is not None and got != want:
                acc.violation(f'{name}.{query.split("(")[0]}/wrong-answer', case(query), f'got {got!r} expected {want!r}', feats)
            return got

        if f.input_size != n or f.output_size != m:
            acc.violation(f'{name}/shape', case('shape'), f'{f.input_size}x{f.output_size}', feats)
            continue
        for j, x in enumerate(asg):
            wv = [bool((t >> j) & 1) for t in ts]
            g = q(f'evaluate({j})', None, f.evaluate, list(x))
            if g is not None and list(g) != wv:
                acc.violation(f'{name}.evaluate/wrong-answer', case(f'evaluate({j})'), f'got {list(g)} expected {wv}', feats)
            g = q(f'check({j})', None, f.check, list(x))
            if g is not None and list(g) != wv:
                acc.violation(f'{name}.check/wrong-answer', case(f'check({j})'), f'got {list(g)}', feats)
            for h in range(m):
                q(f'evaluate_at({j},{h})', wv[h], f.evaluate_at, list(x), h)
                q(f'check_at({j},{h})', wv[h], f.check_at, list(x), h)
        g = q('get_truth_table', None, f.get_truth_table)
        if g is not None and [list(r) for r in g] != [rows_of(t, n) for t in ts]:
            acc.violation(f'{name}.get_truth_table/wrong-answer', case('get_truth_table'), str(g), feats)
        g = q('get_model_truth_table', None, f.get_model_truth_table)
        if g is not None and [list(r) for r in g] != [rows_of(t, n) for t in ts]:
            acc.violation(f'{name}.get_model_truth_table/wrong-answer', case('get_model_truth_table'), str(g), feats)
        q('is_constant', all(d_const(t, n) for t in ts), f.is_constant)
        q('is_symmetric', d_symmetric_multi(ts, n), f.is_symmetric)
        for inv in (False, True):
            q(f'is_monotone(inverse={inv})', all(d_monotone(t, n, inv) for t in ts), f.is_monotone, inverse=inv)
        q('is_monotone()', all(d_monotone(t, n, False) for t in ts), f.is_monotone)
        for h in range(m):
            q(f'is_constant_at({h})', d_const(ts[h], n), f.is_constant_at, h)
            q(f'is_symmetric_at({h})', d_symmetric_multi([ts[h]], n), f.is_symmetric_at, h)
            for inv in (False, True):
                q(f'is_monotone_at({h},inverse={inv})', d_monotone(ts[h], n, inv), f.is_monotone_at, h, inverse=inv)
            q(f'get_significant_inputs_of({h})', [i for i in range(n) if d_dep(ts[h], n, i)], f.get_significant_inputs_of, h)
            for i in range(n):
                q(f'is_dependent_on_input_at({h},{i})', d_dep(ts[h], n, i), f.is_dependent_on_input_at, h, i)
                q(f'is_output_equal_to_input({h},{i})', d_eq_input(ts[h], n, i, False), f.is_output_equal_to_input, h, i)
                q(f'is_output_equal_to_input_negation({h},{i})', d_eq_input(ts[h], n, i, True), f.is_output_equal_to_input_negation, h, i)
        for s in subsets:
            g = q(f'find_negations_to_make_symmetric({s})', None, f.find_negations_to_make_symmetric, list(s))
            valid = want_neg[tuple(s)]
            if g is None:
                if valid:
                    acc.violation(f'{name}.find_negations_to_make_symmetric/none-although-exists', case(f'find_negations({s})'), f'e.g. {valid[0]}', feats)
            elif tuple(bool(b) for b in g) not in valid:
                acc.violation(f'{name}.find_negations_to_make_symmetric/invalid-witness', case(f'find_negations({s})'), f'{g}', feats)
        # define on a complete function
        acc.transitions += 2
        try:
            d = f.define({})
            if [list(r) for r in d.get_truth_table()] != [rows_of(t, n) for t in ts]:
                acc.violation(f'{name}.define/empty-definition-changes-function', case('define({})'), '', feats)
        except Exception as e:  # noqa: BLE001
            acc.violation(f'{name}.define/raises-on-empty-definition', case('define({})'), repr(e), feats)
        if n >= 1:
            from cirbo.core.exceptions import BadDefinitionError

            try:
                f.define({(tuple([False] * n), 0): True})
                acc.violation(f'{name}.define/accepts-definition-of-defined-function', case('define(nonempty)'), '', feats)
            except BadDefinitionError:
                pass
            except Exception as e:  # noqa: BLE001
                acc.violation(f'{name}.define/wrong-exception', case('define(nonempty)'), repr(e), feats)
    # identical answers across representations
    def _nb(v):
        if isinstance(v, (list, tuple)):
            return [_nb(x) for x in v]
        if v is None:
            return None
        if isinstance(v, int):  # bools and 0/1 integers denote the same values
            return bool(v) if v in (0, 1) else v
        return v

    for query, by in answers.items():
        vals = list(by.values())
        norm = [repr(_nb(v)) for v in vals]
        if len(set(norm)) > 1:
            acc.violation('representations-disagree', case(query), str({k: norm[i] for i, k in enumerate(by)}), {'query': query.split('(')[0]})
    acc.outcome('fn', (n, m, tuple(d_const(t, n) for t in ts), d_symmetric_multi(ts, n), all(d_monotone(t, n, False) for t in ts)))


def check_identity_callable(acc):
    """A callable that returns its own argument list (projection functions)."""
    from cirbo.core.python_function import PyFunction

    for n in (1, 2, 3):
        iv = refmodel.input_vectors_cached(n)
        ts = list(iv)
        f = PyFunction(lambda args: args, input_size=n, output_size=n)
        g = PyFunction(lambda args: list(args)[::-1], input_size=n, output_size=n)
        check_function(acc, ts, n, {'PyFunction(identity)': f}, 'identity-callable')
        check_function(acc, ts[::-1], n, {'PyFunction(reversal)': g}, 'identity-callable')
    acc.sample({'n': 2, 'tables': ['0011', '0101'], 'query': 'is_symmetric', 'family': 'identity-callable'})


def check_models(acc, n, m, lo, hi):
    from cirbo.core.logic import DontCare
    from cirbo.core.python_function import PyFunctionModel
    from cirbo.core.truth_table import TruthTableModel

    rows = 1 << n
    one = [''.join(t) for t in itertools.product('01*', repeat=rows)]
    models = list(itertools.product(one, repeat=m))[lo:hi]
    asg = refmodel.assignments(n)
    for mr in models:
        table = [[DontCare if ch == '*' else ch == '1' for ch in s] for s in mr]

        def lookup(args, table=table):
            j = 0
            for b in args:
                j = (j << 1) | int(bool(b))
            return [t[j] for t in table]

        kept_rows = [[t[j] for t in table] for j in range(1 << n)]  # lists the callable keeps and hands out
        kept_spec = [list(r) for r in kept_rows]

        def lookup_kept(args, kept_rows=kept_rows):
            j = 0
            for b in args:
                j = (j << 1) | int(bool(b))
            return kept_rows[j]

        ttm_for_check = TruthTableModel([list(s) for s in mr])
        reps = {
            'PyFunctionModel(kept-lists)': PyFunctionModel(lookup_kept, input_size=n),
            'PyFunctionModel(TruthTableModel.check)': PyFunctionModel(ttm_for_check.check, input_size=n),
            'TruthTableModel': TruthTableModel([list(s) for s in mr]),
            'TruthTableModel(values)': TruthTableModel([list(r) for r in table]),
            'PyFunctionModel': PyFunctionModel(lookup, input_size=n),
            'PyFunctionModel.from_positional': PyFunctionModel.from_positional(make_positional(n, lookup)),
        }
        stars = [(h, j) for h, s in enumerate(mr) for j, ch in enumerate(s) if ch == '*']
        acc.states += 1
        for name, f in reps.items():
            acc.traces += 1
            feats = {'representation': name.split('(')[0].split('.')[0]}
            case = lambda q: {'n': n, 'model': list(mr), 'query': q, 'representation': name}  # noqa: E731

            def tri(v):
                return '*' if (v == DontCare and v is not True and v is not False) else ('1' if v else '0')

            try:
                if f.input_size != n or f.output_size != m:
                    acc.violation(f'{name}/shape', case('shape'), '', feats)
                    continue
                for j, x in enumerate(asg):
                    acc.transitions += 1 + m
                    got = ''.join(tri(v) for v in f.check(list(x)))
                    if got != ''.join(s[j] for s in mr):
                        acc.violation(f'{name}.check/wrong-answer', case(f'check({j})'), got, feats)
                    for h in range(m):
                        if tri(f.check_at(list(x), h)) != mr[h][j]:
                            acc.violation(f'{name}.check_at/wrong-answer', case(f'check_at({j},{h})'), '', feats)
                acc.transitions += 1
                mt = f.get_model_truth_table()
                if [''.join(tri(v) for v in r) for r in mt] != list(mr):
                    acc.violation(f'{name}.get_model_truth_table/wrong-answer', case('get_model_truth_table'), str(mt), feats)
                # every completion
                for sub in itertools.product((False, True), repeat=len(stars)):
                    acc.transitions += 1
                    definition = {(tuple(asg[j]), h): v for (h, j), v in zip(stars, sub)}
                    fn = f.define(definition)
                    exp = [list(r) for r in table]
                    for (h, j), v in zip(stars, sub):
                        exp[h][j] = v
                    got_tt = [list(r) for r in fn.get_truth_table()]
                    if got_tt != exp:
                        acc.violation(f'{name}.define/wrong-completion', case(f'define({sub})'), f'got {got_tt} expected {exp}', feats)
                        break
                    for j, x in enumerate(asg):
                        if list(fn.evaluate(list(x))) != [exp[h][j] for h in range(m)]:
                            acc.violation(f'{name}.define/evaluate-of-completion', case(f'define({sub}).evaluate({j})'), '', feats)
                            break
                # completing a model must not change the model (nor what its callable keeps)
                mt2 = f.get_model_truth_table()
                if [''.join(tri(v) for v in r) for r in mt2] != list(mr):
                    acc.violation(f'{name}.define/changes-the-model', case('get_model_truth_table after define'), str(mt2), feats)
            except Exception as e:  # noqa: BLE001
                acc.violation(f'{name}/raises-{type(e).__name__}', case('any'), repr(e), feats)
        acc.outcome('model', (n, m, len(stars)))
    if models:
        acc.sample({'n': n, 'model': list(models[len(models) // 2]), 'query': 'define(all completions)'})


def check_int_wrappers(acc):
    from cirbo.core.python_function import PyFunction

    fns1 = {'id': lambda x: x, 'plus1': lambda x: x + 1, 'const5': lambda x: 5, 'square': lambda x: x * x, 'half': lambda x: x // 2}
    fns2 = {'add': lambda a, b: a + b, 'mul': lambda a, b: a * b, 'first': lambda a, b: a, 'submod': lambda a, b: (a - b) % 64, 'const3': lambda a, b: 3}
    for be in (False, True):
        for il in (1, 2, 3):
            for ol in (1, 2, 3, 4):
                for nm, fn in fns1.items():
                    acc.states += 1
                    acc.traces += 1
                    case = {'wrapper': 'from_int_unary_func', 'func': nm, 'in': il, 'out': ol, 'big_endian': be}
                    try:
                        pf = PyFunction.from_int_unary_func(fn, il, ol, big_endian=be)
                        if pf.input_size != il or pf.output_size != ol:
                            acc.violation('from_int_unary_func/shape', case, f'{pf.input_size}x{pf.output_size}')
                            continue
                        for x in itertools.product((False, True), repeat=il):
                            acc.transitions += 1
                            bits = list(x) if be else list(x)[::-1]
                            v = int(''.join('1' if b else '0' for b in bits), 2)
                            want = fn(v) % (1 << ol)
                            wb = [bool((want >> (ol - 1 - i)) & 1) for i in range(ol)]
                            if not be:
                                wb = wb[::-1]
                            got = list(pf.evaluate(list(x)))
                            if got != wb:
                                acc.violation('from_int_unary_func/wrong-bits', case, f'x={x} got {got} expected {wb}')
                                break
                    except Exception as e:  # noqa: BLE001
                        acc.violation(f'from_int_unary_func/raises-{type(e).__name__}', case, repr(e))
                if il <= 2:
                    for nm, fn in fns2.items():
                        acc.states += 1
                        acc.traces += 1
                        case = {'wrapper': 'from_int_binary_func', 'func': nm, 'in': il, 'out': ol, 'big_endian': be}
                        try:
                            pf = PyFunction.from_int_binary_func(fn, il, ol, big_endian=be)
                            if pf.input_size != 2 * il or pf.output_size != ol:
                                acc.violation('from_int_binary_func/shape', case, '')
                                continue
                            for x in itertools.product((False, True), repeat=2 * il):
                                acc.transitions += 1
                                a, b = list(x[:il]), list(x[il:])
                                if not be:
                                    a, b = a[::-1], b[::-1]
                                va = int(''.join('1' if t else '0' for t in a), 2)
                                vb = int(''.join('1' if t else '0' for t in b), 2)
                                want = fn(va, vb) % (1 << ol)
                                wb = [bool((want >> (ol - 1 - i)) & 1) for i in range(ol)]
                                if not be:
                                    wb = wb[::-1]
                                got = list(pf.evaluate(list(x)))
                                if got != wb:
                                    acc.violation('from_int_binary_func/wrong-bits', case, f'x={x} got {got} expected {wb}')
                                    break
                        except Exception as e:  # noqa: BLE001
                            acc.violation(f'from_int_binary_func/raises-{type(e).__name__}', case, repr(e))
    acc.sample({'wrapper': 'from_int_binary_func', 'func': 'add', 'in': 2, 'out': 3, 'big_endian': False})


def check_helpers(acc):
    from cirbo.core.circuit.utils import input_iterator_with_fixed_sum
    from cirbo.core.utils import canonical_index_to_input, get_bit_value, input_to_canonical_index

    for size in range(0, 6):
        for j, x in enumerate(itertools.product((False, True), repeat=size)):
            acc.states += 1
            acc.traces += 1
            acc.transitions += 2 + size
            case = {'helper': 'canonical index', 'size': size, 'index': j}
            try:
                if input_to_canonical_index(list(x)) != j:
                    acc.violation('input_to_canonical_index/wrong', case, '')
                if size >= 1 and list(canonical_index_to_input(j, size)) != list(x):
                    acc.violation('canonical_index_to_input/wrong', case, str(canonical_index_to_input(j, size)))
                for i in range(size):
                    if get_bit_value(j, i, size) != x[i]:
                        acc.violation('get_bit_value/wrong', {**case, 'bit': i}, '')
            except Exception as e:  # noqa: BLE001
                acc.violation(f'core.utils/raises-{type(e).__name__}', case, repr(e), {'size': size})
        for k in range(0, size + 1):
            for neg in itertools.product((False, True), repeat=size):
                for use_neg in ((True, False) if not any(neg) else (True,)):
                    acc.states += 1
                    acc.transitions += 1
                    case = {'helper': 'input_iterator_with_fixed_sum', 'size': size, 'k': k, 'negations': list(neg) if use_neg else None}
                    try:
                        it = input_iterator_with_fixed_sum(size, k, negations=list(neg)) if use_neg else input_iterator_with_fixed_sum(size, k)
                        got_live = list(it)  # references as yielded (aliasing shows up here)
                        it2 = input_iterator_with_fixed_sum(size, k, negations=list(neg)) if use_neg else input_iterator_with_fixed_sum(size, k)
                        got = [tuple(v) for v in it2]  # snapshot at yield time
                    except Exception as e:  # noqa: BLE001
                        acc.violation('input_iterator_with_fixed_sum/raises', case, repr(e))
                        continue
                    want = {x for x in itertools.product((False, True), repeat=size) if sum(a != b for a, b in zip(x, neg)) == k}
                    if len(got) != len(set(got)) or set(got) != want:
                        acc.violation('input_iterator_with_fixed_sum/wrong-set', case, str(got))
                    elif [tuple(v) for v in got_live] != got:
                        acc.violation('input_iterator_with_fixed_sum/yields-one-mutated-object', case, f'collected {got_live}')
    acc.sample({'helper': 'input_iterator_with_fixed_sum', 'size': 3, 'k': 1, 'negations': [True, False, False]})


def check_sym4(acc, lo, hi):
    """All 65536 functions of four inputs: the symmetry / constancy / monotonicity queries of the three
    representations (the other queries are covered for n<=3; the thorough tier runs everything for n=4)."""
    from cirbo.core.python_function import PyFunction
    from cirbo.core.truth_table import TruthTable

    n = 4
    for t in range(lo, hi):
        rows = rows_of(t, n)
        acc.states += 1
        acc.traces += 1
        want_sym = d_symmetric_multi([t], n)
        want_const = d_const(t, n)
        want_mono = d_monotone(t, n, False)
        reps = {
            'TruthTable': TruthTable([rows]),
            'PyFunction': PyFunction(lambda xs, rows=rows: [rows[int(''.join('1' if b else '0' for b in xs), 2)]], input_size=n),
            'Circuit(mux)': space.build_from_net(c19.mux_net([rows], n, 'M_')),
        }
        for name, f in reps.items():
            acc.transitions += 4
            case = lambda q: {'n': n, 'tables': [refmodel.tt_str(t, n)], 'query': q, 'family': 'sym4'}  # noqa: E731
            try:
                got = (f.is_symmetric_at(0), f.is_symmetric(), f.is_constant_at(0), f.is_monotone_at(0))
            except Exception as e:  # noqa: BLE001
                acc.violation(f'{name}/raises-{type(e).__name__}', case('symmetry'), repr(e))
                continue
            if got != (want_sym, want_sym, want_const, want_mono):
                acc.violation(f'{name}.is_symmetric_at/wrong-answer' if got[0] != want_sym else f'{name}/wrong-answer', case('is_symmetric_at/is_symmetric/is_constant_at/is_monotone_at'),
                              f'got {got} expected {(want_sym, want_sym, want_const, want_mono)}', {'representation': name.split('(')[0]})
        acc.outcome('fn', (4, 1, want_const, want_sym, want_mono))
    acc.sample({'n': 4, 'tables': [refmodel.tt_str(lo, 4)], 'query': 'is_symmetric_at', 'family': 'sym4'})


def check_requery_after_rebuild(acc, n, gates, outs):
    """Ask for the table, rebuild the last gate under the same label with another type, ask again."""
    from cirbo.core.circuit import gate as G

    labs = space.labels(n, len(gates))
    last = labs[-1]
    t0, ops = gates[-1]
    c = space.build(n, gates, outs)
    try:
        c.get_truth_table()
        c.get_gates_truth_table()
    except Exception:  # noqa: BLE001
        return
    for t2 in refmodel.ALL_TYPES:
        ar2 = 1 if t2 in refmodel.UNARY else 0 if t2 in refmodel.CONST else 2
        if t2 == t0 or (ar2 != len(ops) and not (t2 in refmodel.SYM and len(ops) >= 2)):
            continue
        acc.transitions += 1
        case = lambda: {'family': 'rebuild', 'spec': space.spec_json(n, gates, outs), 'new_type': t2}  # noqa: E731
        try:
            c.set_outputs([])
            c.remove_gate(last)
            c.emplace_gate(last, getattr(G, t2), tuple(labs[o] for o in ops))
            c.set_outputs([labs[o] for o in outs])
            tt = c.get_truth_table()
        except Exception as e:  # noqa: BLE001
            acc.violation(f'Circuit.get_truth_table/raises-after-rebuild-{type(e).__name__}', case, repr(e))
            return
        g2 = gates[:-1] + ((t2, ops),)
        want = space.spec_net(n, g2, outs).out_tables()
        if [refmodel.tt_from_rows(r) for r in tt] != want:
            acc.violation('Circuit.get_truth_table/stale-after-gate-rebuilt-under-same-label', case, '')
            return
        gates = g2
        t0 = t2


def plan(tier):
    t = [{'kind': 'helpers'}, {'kind': 'wrappers'}, {'kind': 'widewrappers'}, {'kind': 'identity'}]
    for n, m in ((1, 1), (2, 1), (1, 2), (3, 1)):
        t.append({'kind': 'aliasing', 'n': n, 'm': m})
    shapes = [(0, 1), (0, 2), (1, 1), (1, 2), (2, 1), (2, 2), (3, 1), (1, 3)]
    if tier == 'thorough':
        shapes += [(3, 2), (4, 1), (2, 3)]
    for n, m in shapes:
        total = (1 << (1 << n)) ** m
        step = 256 if total > 256 else total
        for lo in range(0, total, step):
            t.append({'kind': 'funcs', 'n': n, 'm': m, 'lo': lo, 'hi': min(total, lo + step)})
    for n, k in ((1, 2), (2, 2)):
        for tk in space.tasks(n, k, space.FULL, 1):
            tk.update(kind='circuits')
            t.append(tk)
    for lo in range(0, 65536, 2048):
        t.append({'kind': 'sym4', 'lo': lo, 'hi': lo + 2048})
    for pat in ('not-and', 'cmp', 'or3'):
        for st in ('fwd', 'rev'):
            t.append({'kind': 'deep', 'pattern': pat, 'L': 3000, 'storage': st})
    wide = [(9, 'and2'), (9, 'xor3'), (10, 'and2'), (10, 'xor3'), (12, 'and2')]
    if tier == 'thorough':
        wide += [(11, 'and2'), (11, 'xor3'), (12, 'xor3'), (13, 'and2')]
    for n, shape in wide:
        for first in WIDE_POS(n):
            t.append({'kind': 'wideif', 'n': n, 'shape': shape, 'first': first})
    for n, m in [(1, 1), (2, 1), (1, 2)] + ([(2, 2), (3, 1)] if tier == 'thorough' else []):
        total = (3 ** (1 << n)) ** m
        step = 81
        for lo in range(0, total, step):
            t.append({'kind': 'models', 'n': n, 'm': m, 'lo': lo, 'hi': min(total, lo + step)})
    return t


def describe(tier):
    return {
        'rule': 'aliasing: every table of (1,1),(2,1),(1,2),(3,1) built from row lists that the caller keeps rewriting, queried 40 constructions later; deep: every protocol query on chain circuits of 3000 gates (three patterns, both storage orders); widewrappers: from_int_unary/binary_func with operand/result widths 33..130 over a stated operand alphabet, both bit orders, against Python integers; wideif: functions of 9..12 (13) inputs depending on 2-3 of them, every ordered choice of positions from {0,1,2,7,8,9,n-2,n-1} with one >= 8: dependency queries incl. the order of the answer; funcs: every function table for the listed (n,m) in 7 representations (TruthTable from bools / strings, PyFunction from a '
        'list callable with and without output_size and from a 0/1-integer-valued callable, PyFunction.from_positional, Circuit as mux tree); circuits: every circuit of '
        'F(n,2,FULL) with outputs (last gate, first gate, first input) as its own function; identity: callables returning their argument list; sym4: all 65536 four-input functions for the symmetry/constancy/monotonicity queries; rebuild: table queried, last gate rebuilt under the same label with every other type, queried again; every '
        'protocol query with every index argument, both inverse values, every non-empty output subset for find_negations; answers '
        'compared with definitions computed from the table and across representations. models: every {0,1,*} table x every completion '
        '(check, check_at, get_model_truth_table, define; PyFunctionModel also from callables that hand out lists they keep; the model must be unchanged afterwards). wrappers: from_int_unary/binary_func widths<=3, both endiannesses, 5 '
        'functions each. helpers: canonical index helpers and input_iterator_with_fixed_sum for all arguments up to size 5. '
        'distinct = distinct function classes (constant/symmetric/monotone signature).',
        'bounds': {'quick': '(n,m) in {(0,1),(0,2),(1,1),(1,2),(2,1),(2,2),(3,1),(1,3)}; circuits F(1..2,2,FULL); models (1,1),(2,1),(1,2)',
                   'thorough': '+ (3,2),(4,1),(2,3); models (2,2),(3,1)'}[tier],
        'exhaustive': True,
        'assumptions': ['monotone = non-decreasing along the canonical enumeration (the protocol docstring); definitions in this module'],
    }


def probe():
    reps = representations([0b0110], 2)
    return [[k, [list(r) for r in f.get_truth_table()], f.is_symmetric()] for k, f in reps.items()]


WIDE_POS = lambda n: sorted({0, 1, 2, 7, 8, 9, n - 2, n - 1} & set(range(n)))  # noqa: E731


def check_wide_interface(acc, n, shape, first=None):
    """Functions of n >= 9 inputs that depend on two or three of them (every ordered choice of positions from a
    stated set around 0, 8 and n-1): dependency queries of the three representations against the definition,
    order of the returned positions included."""
    from cirbo.core.python_function import PyFunction
    from cirbo.core.truth_table import TruthTable

    P = WIDE_POS(n)
    ar = 2 if shape == 'and2' else 3
    t = 'AND' if shape == 'and2' else 'XOR'
    for pos in itertools.permutations(P, ar):
        if max(pos) < 8 or (first is not None and pos[0] != first):
            continue
        gates = ((t, tuple(pos)),)
        outs = (n,)
        net = space.spec_net(n, gates, outs)
        tab = net.out_tables()[0]
        rows = rows_of(tab, n)
        want = sorted(pos)
        acc.states += 1
        case = {'family': 'wide-interface', 'n': n, 'gate': [t, list(pos)]}

        def lookup(args, rows=rows):
            j = 0
            for b in args:
                j = (j << 1) | int(bool(b))
            return [rows[j]]

        reps = {'Circuit': space.build(n, gates, outs), 'TruthTable': TruthTable([list(rows)])}
        if n <= 10 and ar == 2:
            reps['PyFunction'] = PyFunction(lookup, input_size=n)
        answers = {}
        for name, f in reps.items():
            acc.traces += 1
            acc.transitions += 1 + n
            try:
                got = f.get_significant_inputs_of(0)
                dep = [f.is_dependent_on_input_at(0, i) for i in range(n)]
            except Exception as e:  # noqa: BLE001
                acc.violation(f'{name}.get_significant_inputs_of/raises-{type(e).__name__}', case, repr(e)[:200])
                continue
            answers[name] = list(got)
            if list(got) != want:
                acc.violation(f'{name}.get_significant_inputs_of/wrong-answer', case, f'got {list(got)} expected {want}')
            if [bool(d) for d in dep] != [i in pos for i in range(n)]:
                acc.violation(f'{name}.is_dependent_on_input_at/wrong-answer', case, f'{dep}')
        if len({repr(v) for v in answers.values()}) > 1:
            acc.violation('representations-disagree', case, str(answers), {'query': 'get_significant_inputs_of'})
        acc.outcome('fn', ('wide', n, shape))


def check_int_wrappers_wide(acc):
    """Integer-function wrappers with operand / result widths around and beyond 64 bits, over a stated operand
    alphabet (0, 1, all-ones, top bit, 2^31, 2^32-1, 2^63, alternating)."""
    from cirbo.core.python_function import PyFunction

    def alphabet(w):
        vals = {0, 1, (1 << w) - 1, 1 << (w - 1), int('10' * w, 2) & ((1 << w) - 1), int('01' * w, 2) & ((1 << w) - 1)}
        for k in (31, 32, 63, 64, 65):
            if k < w:
                vals |= {1 << k, (1 << k) - 1}
        return sorted(vals)

    def bits_of(v, w, be):
        b = [bool((v >> (w - 1 - i)) & 1) for i in range(w)]
        return b if be else b[::-1]

    fns1 = {'id': lambda x: x, 'plus1': lambda x: x + 1, 'shl35': lambda x: x << 35, 'square': lambda x: x * x, 'neg-free': lambda x: (x * 3) >> 1}
    fns2 = {'add': lambda a, b: a + b, 'mul': lambda a, b: a * b, 'shl': lambda a, b: a << (b % 70)}
    for be in (False, True):
        for il, ol in ((33, 70), (40, 80), (64, 64), (64, 65), (65, 66), (70, 130), (16, 100)):
            for nm, fn in fns1.items():
                acc.states += 1
                acc.traces += 1
                case = {'wrapper': 'from_int_unary_func', 'func': nm, 'in': il, 'out': ol, 'big_endian': be, 'values': 'stated alphabet'}
                try:
                    pf = PyFunction.from_int_unary_func(fn, il, ol, big_endian=be)
                    for v in alphabet(il):
                        acc.transitions += 1
                        want = bits_of(fn(v) % (1 << ol), ol, be)
                        got = [bool(b) for b in pf.evaluate(bits_of(v, il, be))]
                        if got != want:
                            acc.violation('from_int_unary_func/wrong-bits', case, f'x={v}: result differs from Python integer arithmetic')
                            break
                except Exception as e:  # noqa: BLE001
                    acc.violation(f'from_int_unary_func/raises-{type(e).__name__}', case, repr(e)[:200])
            for nm, fn in fns2.items():
                acc.states += 1
                acc.traces += 1
                case = {'wrapper': 'from_int_binary_func', 'func': nm, 'in': il, 'out': ol, 'big_endian': be, 'values': 'stated alphabet'}
                try:
                    pf = PyFunction.from_int_binary_func(fn, il, ol, big_endian=be)
                    al = alphabet(il)
                    for va in al:
                        for vb in al[:6] + al[-2:]:
                            acc.transitions += 1
                            want = bits_of(fn(va, vb) % (1 << ol), ol, be)
                            got = [bool(b) for b in pf.evaluate(bits_of(va, il, be) + bits_of(vb, il, be))]
                            if got != want:
                                acc.violation('from_int_binary_func/wrong-bits', case, f'a={va} b={vb}: result differs from Python integer arithmetic')
                                raise StopIteration
                except StopIteration:
                    pass
                except Exception as e:  # noqa: BLE001
                    acc.violation(f'from_int_binary_func/raises-{type(e).__name__}', case, repr(e)[:200])
    acc.outcome('fn', ('wide-wrappers',))


def check_table_aliasing(acc, n, m):
    """The rows handed to TruthTable stay the caller's: they are edited (and reused for the next table) right after
    construction; every later answer must still be that of the table as constructed."""
    from cirbo.core.truth_table import TruthTable

    per = 1 << (1 << n)
    work = [[False] * (1 << n) for _ in range(m)]  # one set of row lists reused for every table
    kept = []
    for idx in range(per ** m):
        x = idx
        ts = []
        for h in range(m):
            t = x % per
            x //= per
            ts.append(t)
            for j in range(1 << n):
                work[h][j] = bool((t >> j) & 1)
        kept.append((ts, TruthTable(work)))
        if len(kept) > 40:
            kept.pop(0)
        # query the table built 40 constructions ago (its row lists have been rewritten 40 times since)
        ts0, tt0 = kept[0]
        acc.states += 1
        check_function(acc, ts0, n, {'TruthTable(rows reused by the caller)': tt0}, 'aliasing')


def run_task(task, acc):
    k = task['kind']
    if k == 'helpers':
        return check_helpers(acc)
    if k == 'wrappers':
        return check_int_wrappers(acc)
    if k == 'aliasing':
        return check_table_aliasing(acc, task['n'], task['m'])
    if k == 'widewrappers':
        return check_int_wrappers_wide(acc)
    if k == 'identity':
        return check_identity_callable(acc)
    if k == 'models':
        return check_models(acc, task['n'], task['m'], task['lo'], task['hi'])
    if k == 'sym4':
        return check_sym4(acc, task['lo'], task['hi'])
    if k == 'deep':
        c, net = space.deep_chain(task['pattern'], task['L'], task['storage'])
        return check_function(acc, net.out_tables(), len(net.inputs), {'Circuit': c}, f"deep:{task['pattern']}:{task['L']}:{task['storage']}")
    if k == 'wideif':
        return check_wide_interface(acc, task['n'], task['shape'], task.get('first'))
    if k == 'funcs':
        n, m = task['n'], task['m']
        per = 1 << (1 << n)
        for idx in range(task['lo'], task['hi']):
            ts = []
            x = idx
            for _ in range(m):
                ts.append(x % per)
                x //= per
            check_function(acc, ts, n, representations(ts, n), 'table')
        acc.sample({'n': n, 'tables': [refmodel.tt_str(t, n) for t in ts], 'query': 'all', 'family': 'table'})
        return
    if k == 'circuits':
        n = task['n']
        for gates in space.enum_gates(n, task['k'], space.FULL, space.prefix_from_task(task)):
            outs = (n + len(gates) - 1, n, 0)  # last gate, first gate, first input (possibly without users)
            net = space.spec_net(n, gates, outs)
            ts = net.out_tables()
            c = space.build(n, gates, outs)
            check_function(acc, ts, n, {'Circuit': c}, 'E1-circuit')
            check_requery_after_rebuild(acc, n, gates, outs)
        acc.sample({'n': n, 'family': 'E1-circuit', 'spec': space.spec_json(n, gates, outs)})


def replay(case, acc):
    if 'task' in case:
        return run_task(case['task'], acc)
    if 'helper' in case:
        return check_helpers(acc)
    if 'wrapper' in case:
        return check_int_wrappers_wide(acc) if case.get('values') else check_int_wrappers(acc)
    if 'model' in case:
        n = case['n']
        m = len(case['model'])
        one = [''.join(t) for t in itertools.product('01*', repeat=1 << n)]
        models = list(itertools.product(one, repeat=m))
        i = models.index(tuple(case['model']))
        return check_models(acc, n, m, i, i + 1)
    if case.get('family') == 'identity-callable':
        return check_identity_callable(acc)
    if str(case.get('family', '')).startswith('deep:'):
        _, pat, L, st = case['family'].split(':')
        c, net = space.deep_chain(pat, int(L), st)
        return check_function(acc, net.out_tables(), len(net.inputs), {'Circuit': c}, case['family'])
    if case.get('family') == 'aliasing':
        return check_table_aliasing(acc, case['n'], len(case['tables']))
    if case.get('family') == 'wide-interface':
        return check_wide_interface(acc, case['n'], 'and2' if len(case['gate'][1]) == 2 else 'xor3')
    if case.get('family') == 'sym4':
        t = refmodel.tt_from_rows([ch == '1' for ch in case['tables'][0]])
        return check_sym4(acc, t, t + 1)
    if case.get('family') == 'rebuild':
        n, gates, outs = space.spec_from_json(case['spec'])
        return check_requery_after_rebuild(acc, n, gates, outs)
    n = case['n']
    ts = [refmodel.tt_from_rows([ch == '1' for ch in s]) for s in case['tables']]
    check_function(acc, ts, n, representations(ts, n), case.get('family', 'table'))
