"""pysat.solvers subset: Solver.  The decision procedure is vmc.vsat (complete, total
models).  Which model of a satisfiable formula is returned is an *environment choice*:
ENV.chooser(clauses, nvars) -> model | None, installed by the explorer; the default is
vsat's first model in ascending variable order, negative phase first."""

from vmc import vsat


class _Env:
    def __init__(self):
        self.reset()

    def reset(self):
        self.chooser = None  # callable(clauses, nvars) -> model/None
        self.calls = 0
        self.log = []  # (nvars, nclauses, sat)
        self.keep_log = False


ENV = _Env()


class SolverNames:
    cadical195 = ('cadical195',)


class Solver:
    def __init__(self, name='cadical195', bootstrap_with=None, **kwargs):
        self.name = name
        self._clauses = []
        self._nv = 0
        self._model = None
        self._status = None
        if bootstrap_with is not None:
            self.append_formula(bootstrap_with)

    def add_clause(self, clause, no_return=True):
        clause = list(clause)
        self._clauses.append(clause)
        for l in clause:
            if abs(l) > self._nv:
                self._nv = abs(l)

    def append_formula(self, formula, no_return=True):
        for c in getattr(formula, 'clauses', formula):
            self.add_clause(c)

    def nof_vars(self):
        return self._nv

    def solve(self, assumptions=()):
        ENV.calls += 1
        clauses = self._clauses
        if assumptions:
            clauses = clauses + [[a] for a in assumptions]
        if ENV.chooser is not None:
            m = ENV.chooser(clauses, self._nv)
        else:
            m = vsat.solve(clauses, self._nv)
        if m is not None and not vsat.check_model(clauses, m):
            raise AssertionError('vmc shim: solver produced a non-model')
        if ENV.keep_log:
            ENV.log.append((self._nv, len(clauses), m is not None))
        self._model = m
        self._status = m is not None
        return self._status

    def get_model(self):
        return list(self._model) if self._status else None

    def get_status(self):
        return self._status

    def delete(self):
        self._clauses = []
        self._model = None

    def __enter__(self):
        return self

    def __exit__(self, *a):
        self.delete()
        return False
