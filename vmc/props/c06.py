"""C06 - exact synthesis is sound and complete for the requested size and basis.

Function models (all {0,1,*} tables for small n, m) x gate budgets x bases x constraint
sets x solver answers (E3).  Oracle: brute-force enumeration of the whole space of
r-gate circuits (gate g applies one basis operation to an ordered pair p < q < g; every
output sits at an internal gate), with the documented constraints applied.
"""

import itertools

from vmc import refmodel, vsat

ID = 'C06'

PAIRS = [(0, 0), (0, 1), (1, 0), (1, 1)]
OPNAMES = ['ALWAYS_FALSE', 'ALWAYS_TRUE', 'LNOT', 'LIFF', 'RNOT', 'RIFF', 'OR', 'NOR', 'AND', 'NAND', 'XOR', 'NXOR', 'GT', 'LT', 'GEQ', 'LEQ']


def op_tt(name):
    return tuple(int(refmodel.gate_bool(name, (bool(a), bool(b)))) for a, b in PAIRS)


TT_OF = {nm: op_tt(nm) for nm in OPNAMES}
NAME_OF = {v: k for k, v in TT_OF.items()}
BASES = {
    'AIG': ['LNOT', 'AND', 'OR', 'NAND', 'NOR', 'GT', 'LT', 'GEQ', 'LEQ'],
    'XAIG': ['LNOT', 'AND', 'OR', 'NAND', 'NOR', 'GT', 'LT', 'GEQ', 'LEQ', 'XOR', 'NXOR'],
    'FULL': list(OPNAMES),
}
CUSTOM = {'and+lnot': ['AND', 'LNOT'], 'xor': ['XOR'], 'nand': ['NAND'], 'gt': ['GT']}


def basis_arg(bname):
    """The value passed to CircuitFinderSat for a basis name of this module."""
    from cirbo.synthesis.circuit_search import Basis, Operation

    if bname in ('AIG', 'XAIG', 'FULL'):
        return getattr(Basis, bname)
    if bname.startswith('str:'):
        return bname[4:]
    return [getattr(Operation, n.lower() + '_') for n in CUSTOM[bname]]


def basis_ops(bname):
    if bname.startswith('str:'):
        return BASES[bname[4:].upper()]
    return BASES.get(bname) or CUSTOM[bname]


def apply_op(tt, a, b, mask):
    r = 0
    na, nb = a ^ mask, b ^ mask
    if tt[0]:
        r |= na & nb
    if tt[1]:
        r |= na & b
    if tt[2]:
        r |= a & nb
    if tt[3]:
        r |= a & b
    return r


_SPACE = {}
SOL_CAP = [400]


def space_of(n, r, ops_key):
    """All r-gate structures over n inputs: list of (gates, tables) with gates = tuple of
    (p, q, opname) and tables = tuple of internal gate tables."""
    key = (n, r, ops_key)
    if key in _SPACE:
        return _SPACE[key]
    ops = [(nm, TT_OF[nm]) for nm in ops_key]
    iv = refmodel.input_vectors_cached(n)
    mask = (1 << (1 << n)) - 1
    out = []

    def rec(g, vals, gates):
        if g == n + r:
            out.append((tuple(gates), tuple(vals[n:])))
            return
        for p, q in itertools.combinations(range(g), 2):
            for nm, tt in ops:
                v = apply_op(tt, vals[p], vals[q], mask)
                rec(g + 1, vals + [v], gates + [(p, q, nm)])

    rec(n, list(iv), [])
    _SPACE[key] = out
    return out


def constraint_ok(gates, n, cons):
    """Documented meaning of the user constraints on a structure."""
    for c in cons:
        k = c[0]
        if k == 'fix':
            _, g, fp, sp, gt = c
            p, q, nm = gates[g - n]
            if fp is not None and sp is not None:
                if (p, q) != (fp, sp):
                    return False
            elif fp is not None:
                if fp not in (p, q):
                    return False
            elif sp is not None:
                if sp not in (p, q):
                    return False
            if gt is not None and nm != gt:
                return False
        elif k == 'forbid':
            _, fr, to = c
            p, q, nm = gates[to - n]
            if fr in (p, q):
                return False
        elif k == 'norm':
            for p, q, nm in gates:
                if TT_OF[nm][0]:
                    return False
    return True


def solutions(n, r, bname, model_rows, cons):
    """All (structure index, output placement) pairs satisfying the model + constraints.
    model_rows: tuple of strings over '01*' (one per output)."""
    sp = space_of(n, r, tuple(basis_ops(bname)))
    rows = 1 << n
    care = []
    want = []
    for s in model_rows:
        cm = 0
        wv = 0
        for j, ch in enumerate(s):
            if ch != '*':
                cm |= 1 << j
                if ch == '1':
                    wv |= 1 << j
        care.append(cm)
        want.append(wv)
    sols = []
    for idx, (gates, tabs) in enumerate(sp):
        if cons and not constraint_ok(gates, n, cons):
            continue
        per_out = []
        for cm, wv in zip(care, want):
            per_out.append([gi for gi, t in enumerate(tabs) if (t & cm) == wv])
            if not per_out[-1]:
                break
        else:
            for place in itertools.product(*per_out):
                sols.append((idx, place))
    return sols


# -- driving the real finder ------------------------------------------------------------

def make_finder(n, r, bname, model_rows, cons, normalized=False, py_model=False):
    from cirbo.core import gate as G
    from cirbo.core.truth_table import TruthTableModel
    from cirbo.synthesis.circuit_search import CircuitFinderSat

    model = TruthTableModel([list(s) for s in model_rows])
    if py_model:
        from cirbo.core.logic import DontCare
        from cirbo.core.python_function import PyFunctionModel

        table = [[DontCare if ch == '*' else ch == '1' for ch in s] for s in model_rows]

        def fn(inputs, table=table, n=n):
            j = 0
            for b in inputs:
                j = (j << 1) | int(bool(b))
            return [t[j] for t in table]

        model = PyFunctionModel(fn, input_size=n, output_size=len(model_rows))
    f = CircuitFinderSat(model, r, basis=basis_arg(bname), need_normalized=normalized)
    for c in cons:
        if c[0] == 'fix':
            _, g, fp, sp, gt = c
            f.fix_gate(g, first_predecessor=fp, second_predecessor=sp, gate_type=None if gt is None else getattr(G, gt))
        elif c[0] == 'forbid':
            f.forbid_wire(c[1], c[2])
    return f


def model_for(finder, n, r, gates, place, care_rows):
    """Total CNF assignment describing structure `gates` with outputs at `place`."""
    iv = refmodel.input_vectors_cached(n)
    mask = (1 << (1 << n)) - 1
    vals = list(iv)
    for p, q, nm in gates:
        vals.append(apply_op(TT_OF[nm], vals[p], vals[q], mask))
    pool = finder._vpool
    true_names = set()
    for gi, (p, q, nm) in enumerate(gates):
        g = n + gi
        true_names.add(f's_{g}_{p}_{q}')
        tt = TT_OF[nm]
        for (a, b), bit in zip(PAIRS, tt):
            if bit:
                true_names.add(f'f_{g}_{a}_{b}')
        for t in care_rows:
            if (vals[g] >> t) & 1:
                true_names.add(f'x_{g}_{t}')
    for i in range(n):
        for t in care_rows:
            if (iv[i] >> t) & 1:
                true_names.add(f'x_{i}_{t}')
    for h, gi in enumerate(place):
        true_names.add(f'g_{h}_{n + gi}')
    top = pool.top
    m = []
    for v in range(1, top + 1):
        nm = pool.id2obj.get(v)
        m.append(v if nm in true_names else -v)
    return m


def check_returned(acc, case, feats, c, n, r, bname, model_rows, cons, normalized):
    """Soundness of a returned circuit."""
    net = refmodel.abstract(c)
    if len(net.inputs) != n or net.inputs != [str(i) for i in range(n)]:
        acc.violation('find_circuit/inputs', case, net.inputs, feats)
        return None
    internal = [k for k, (t, _) in net.gates.items() if t != 'INPUT']
    if len(internal) != r:
        acc.violation('find_circuit/gate-count', case, f'{len(internal)} gates, requested {r}', feats)
        return None
    if refmodel.wellformed(c, deep=False):
        acc.violation('find_circuit/ill-formed', case, refmodel.wellformed(c, deep=False)[:2], feats)
        return None
    order = net.topo()
    pos = {k: i for i, k in enumerate(order)}
    allowed = set(basis_ops(bname))
    # node numbering: inputs 0..n-1, gate labels 's<k>'
    num = {str(i): i for i in range(n)}
    for k in internal:
        if not (k.startswith('s') and k[1:].isdigit()):
            acc.violation('find_circuit/gate-label', case, k, feats)
            return None
        num[k] = int(k[1:])
    if sorted(num[k] for k in internal) != list(range(n, n + r)):
        acc.violation('find_circuit/gate-numbering', case, sorted(internal), feats)
        return None
    gates = [None] * r
    for k in internal:
        t, ops = net.gates[k]
        if len(ops) != 2:
            acc.violation('find_circuit/gate-not-binary', case, f'{k}: {t}{ops}', feats)
            return None
        if t not in allowed:
            acc.violation('find_circuit/gate-outside-basis', case, f'{k}: {t} not in {sorted(allowed)}', feats)
            return None
        if any(num[o] >= num[k] for o in ops):
            acc.violation('find_circuit/gate-reads-later-gate', case, f'{k}: {ops}', feats)
            return None
        gates[num[k] - n] = (num[ops[0]], num[ops[1]], t)
    if len(net.outputs) != len(model_rows):
        acc.violation('find_circuit/output-count', case, net.outputs, feats)
        return None
    for o in net.outputs:
        if net.gates[o][0] == 'INPUT':
            acc.violation('find_circuit/output-at-input', case, o, feats)
            return None
    tabs = net.out_tables()
    for h, (s, v) in enumerate(zip(model_rows, tabs)):
        for j, ch in enumerate(s):
            if ch != '*' and ((v >> j) & 1) != int(ch):
                acc.violation('find_circuit/disagrees-with-model', case, f'output {h} row {j}: circuit {refmodel.tt_str(v, n)} model {s}', feats)
                return None
    allc = list(cons) + ([('norm',)] if normalized else [])
    if allc and not constraint_ok(gates, n, allc):
        acc.violation('find_circuit/violates-constraint', case, f'returned {gates}', feats)
        return None
    return tuple(gates), tuple(num[o] - n for o in net.outputs)


def check_config(acc, n, r, bname, model_rows, cons, normalized=False, enum_models=False, py_model=False, pool_mode=None):
    from cirbo.synthesis.exception import NoSolutionError, SolverTimeOutError
    import pysat.solvers as ps

    case = {'n': n, 'r': r, 'basis': bname, 'model': list(model_rows), 'constraints': [list(c) for c in cons],
            'normalized': normalized, 'py_model': py_model, 'pool': pool_mode}
    feats = {'constraint_kinds': sorted({_ckind(c) for c in cons}), 'basis': bname}
    acc.states += 1
    acc.traces += 1
    allc = list(cons) + ([('norm',)] if normalized else [])
    sols = solutions(n, r, bname, tuple(model_rows), allc)
    sp = space_of(n, r, tuple(basis_ops(bname)))
    care_rows = [t for t in range(1 << n) if any(s[t] != '*' for s in model_rows)]
    try:
        finder = make_finder(n, r, bname, model_rows, cons, normalized, py_model)
    except Exception as e:  # noqa: BLE001
        acc.violation(f'CircuitFinderSat/raises-{type(e).__name__}', case, repr(e), feats)
        return
    # get_cnf returns what find_circuit solves
    seen = []

    def run(chooser, time_limit=None):
        ps.ENV.chooser = chooser
        try:
            return 'ok', finder.find_circuit(time_limit=time_limit)
        except Exception as e:  # noqa: BLE001
            # classified by what a caller's handlers would see: a time-out that is ALSO a NoSolutionError
            # tells `except NoSolutionError` that no circuit exists
            if isinstance(e, SolverTimeOutError) and isinstance(e, NoSolutionError):
                return 'exc', e
            if isinstance(e, NoSolutionError):
                return 'nosol', None
            if isinstance(e, SolverTimeOutError):
                return 'timeout', None
            return 'exc', e
        finally:
            ps.ENV.chooser = None

    def logging_default(clauses, nv):
        seen.append(clauses)
        return vsat.solve(clauses, nv)

    acc.transitions += 1
    tl = None
    if pool_mode is not None:
        tl = 5
    kind, res = run(logging_default, tl)
    try:
        cnf = finder.get_cnf()
    except Exception as e:  # noqa: BLE001
        acc.violation(f'get_cnf/raises-{type(e).__name__}', case, repr(e), feats)
        return
    if seen and pool_mode != 'real' and sorted(map(tuple, seen[0])) != sorted(map(tuple, cnf)):
        acc.violation('get_cnf/differs-from-solved-formula', case, '', feats)
    if kind == 'exc':
        acc.violation(f'find_circuit/raises-{type(res).__name__}', case, repr(res), feats)
        return
    if kind == 'timeout':
        acc.violation('find_circuit/timeout-without-time-pressure', case, '', feats)
        return
    if (kind == 'nosol') != (not sols):
        acc.violation(
            'find_circuit/completeness' if kind == 'nosol' else 'find_circuit/solution-although-none-exists',
            case,
            f'{kind}; brute force finds {len(sols)} solutions' + (f', e.g. {sp[sols[0][0]][0]} outputs at {sols[0][1]}' if sols else ''),
            feats,
        )
        if kind == 'ok':
            check_returned(acc, case, feats, res, n, r, bname, model_rows, cons, normalized)
        return
    acc.outcome('cfg', (n, r, bname, len(model_rows), min(len(sols), 50), tuple(feats['constraint_kinds'])))
    if kind == 'nosol':
        acc.count('nosolution_confirmed')
        return
    acc.count('solution_confirmed')
    solset = {(sp[i][0], pl) for i, pl in sols}
    got = check_returned(acc, case, feats, res, n, r, bname, model_rows, cons, normalized)
    if got is not None and got not in solset:
        acc.violation('find_circuit/returned-circuit-not-in-brute-force-set', case, f'{got}', feats)
    if pool_mode is not None:
        return
    nv = max(finder._vpool.top, max((abs(l) for cl in cnf for l in cl), default=0))
    in_cnf = {abs(l) for cl in cnf for l in cl}
    # gate-type variables that do not occur in the formula (all rows don't-care, FULL basis) are
    # free: the decoder may pick any value for them, so "decodes to itself" / model counting
    # cannot be required for such configurations (membership in the solution set still is)
    free_f = any(
        finder._vpool.obj2id.get(f'f_{g}_{a}_{b}') not in in_cnf
        for g in range(n, n + r) for a, b in PAIRS
    )
    # alternative solver answers (E3): other phase / variable order
    for alt in ('phase', 'rev'):
        acc.transitions += 1

        def chooser(clauses, nvars, alt=alt):
            if alt == 'phase':
                return vsat.solve(clauses, nvars, phase=True)
            return vsat.solve(clauses, nvars, order=list(range(nvars, 0, -1)))

        k2, r2 = run(chooser)
        if k2 != 'ok':
            acc.violation('find_circuit/answer-depends-on-solver-model', case, f'{alt}: {k2} {r2!r}', feats)
            continue
        g2 = check_returned(acc, case, feats, r2, n, r, bname, model_rows, cons, normalized)
        if g2 is not None and g2 not in solset:
            acc.violation('find_circuit/returned-circuit-not-in-brute-force-set', case, f'{g2}', feats)
    # every brute-force solution is a model of the CNF and decodes to itself
    cl_sets = None
    for i, place in sols[:SOL_CAP[0]]:
        gates = sp[i][0]
        m = model_for(finder, n, r, gates, place, care_rows)
        acc.transitions += 1
        if not vsat.check_model(cnf, m):
            # maybe auxiliary variables exist that this construction does not know: ask the solver
            unit = [[l] for l in m if finder._vpool.id2obj.get(abs(l), '').startswith(('s_', 'f_', 'g_'))]
            if vsat.solve(list(cnf) + unit, nv) is None:
                acc.violation('cnf/excludes-valid-circuit', case, f'{gates} outputs at {place}', feats)
                break
            continue

        def chooser(clauses, nvars, m=m):
            mm = m + [-(v) for v in range(len(m) + 1, nvars + 1)]
            return mm[:nvars] if vsat.check_model(clauses, mm[:nvars]) else vsat.solve(clauses, nvars)

        k3, r3 = run(chooser)
        if k3 != 'ok':
            acc.violation('find_circuit/fails-on-valid-model', case, f'{k3} {r3!r}', feats)
            break
        g3 = check_returned(acc, case, feats, r3, n, r, bname, model_rows, cons, normalized)
        if g3 is not None and g3 not in solset:
            acc.violation('find_circuit/returned-circuit-not-in-brute-force-set', case, f'{g3}', feats)
            break
        if g3 is not None and g3 != (gates, place) and not free_f:
            acc.violation('find_circuit/decodes-model-to-different-circuit', case, f'model of {gates}@{place} decoded as {g3}', feats)
            break
    if enum_models and not free_f:
        # every model of the CNF (distinct on the decoded variables) is a valid circuit
        proj = [v for v, nm in finder._vpool.id2obj.items() if v in in_cnf and nm.startswith(('s_', 'f_', 'g_'))]
        cnt = 0
        for m in vsat.iter_models_proj(cnf, nv, proj):
            cnt += 1
            if cnt > len(sols) + 5:
                break
            acc.transitions += 1

            def chooser(clauses, nvars, m=m):
                return m[:nvars] if len(m) >= nvars and vsat.check_model(clauses, m[:nvars]) else vsat.solve(clauses, nvars)

            k4, r4 = run(chooser)
            if k4 != 'ok':
                acc.violation('find_circuit/fails-on-cnf-model', case, f'{k4} {r4!r}', feats)
                break
            g4 = check_returned(acc, case, feats, r4, n, r, bname, model_rows, cons, normalized)
            if g4 is None:
                break
            if g4 not in solset:
                acc.violation('cnf/model-decodes-to-invalid-circuit', case, f'{g4}', feats)
                break
        else:
            if cnt != len(sols):
                acc.violation('cnf/model-count-differs-from-solution-count', case, f'{cnt} projected models, {len(sols)} solutions', feats)
        acc.count('model_enumerations')


def _cgate(c):
    return c[1] if c[0] == 'fix' else c[2]


def _ckind(c):
    if c[0] == 'fix':
        _, g, fp, sp, gt = c
        return 'fix:' + ('both' if fp is not None and sp is not None else 'first' if fp is not None else 'second') + ('+type' if gt else '')
    return c[0]


# -- plan ---------------------------------------------------------------------------------

def all_models(n, m):
    rows = 1 << n
    one = [''.join(t) for t in itertools.product('01*', repeat=rows)]
    return list(itertools.product(one, repeat=m))


def constraint_menu(n, r):
    cons = []
    for g in range(n, n + r):
        for gt in (None, 'AND', 'XOR', 'GT'):
            for p, q in itertools.combinations(range(g), 2):
                cons.append(('fix', g, p, q, gt))
            for p in range(g):
                cons.append(('fix', g, p, None, gt))
                cons.append(('fix', g, None, p, gt))
        for fr in range(g):
            cons.append(('forbid', fr, g))
    return cons


def plan(tier):
    t = []
    bases3 = ['AIG', 'XAIG', 'FULL']
    for n, m, rs, bases in ((1, 1, (0, 1, 2), bases3), (1, 2, (1, 2), bases3), (2, 1, (0, 1, 2, 3), bases3 + ['str:aig', 'str:XAIG']),
                            (2, 2, (1, 2), ['XAIG'] if tier == 'quick' else bases3)):
        for r in rs:
            for b in bases:
                models = all_models(n, m)
                step = 81 if len(models) > 81 else len(models)
                for lo in range(0, len(models), step):
                    t.append({'kind': 'models', 'n': n, 'm': m, 'r': r, 'basis': b, 'lo': lo, 'hi': lo + step, 'enum': r <= 2 and (m == 1 or lo == 0)})
    for r in (1, 2) if tier == 'quick' else (1, 2, 3):
        for b in bases3:
            for lo in range(0, 256, 32):
                t.append({'kind': 'total3', 'r': r, 'basis': b, 'lo': lo, 'hi': lo + 32})
    for b in CUSTOM:
        for r in (1, 2, 3):
            t.append({'kind': 'models', 'n': 2, 'm': 1, 'r': r, 'basis': b, 'lo': 0, 'hi': 81, 'enum': r <= 2})
    # constraints on n=2, r=2
    menu = constraint_menu(2, 2)
    for i in range(len(menu)):
        t.append({'kind': 'cons1', 'ci': i})
    for i in range(len(menu)):
        # quick: every pair (constraint on gate 2, constraint on gate 3); thorough: every pair
        if tier == 'thorough' or _cgate(menu[i]) == 2:
            t.append({'kind': 'cons2', 'ci': i, 'full': tier == 'thorough'})
    for n in (4, 5, 8, 9, 10, 11, 12):
        for b in ('AIG', 'XAIG', 'FULL'):
            for pair in range(1 if n < 11 else 4):
                if pair and b != 'XAIG':
                    continue
                t.append({'kind': 'wide', 'n': n, 'r': 1, 'basis': b, 'pair': pair})
    for n in (4, 6, 9, 10):
        t.append({'kind': 'wide', 'n': n, 'r': 2})
    for n in (4, 5) if tier == 'quick' else (4, 5, 6):
        for f in ('AND', 'OR', 'XOR', 'NAND', 'NOR', 'NXOR', 'GT', 'LT', 'GEQ', 'LEQ'):
            t.append({'kind': 'disjoint', 'n': n, 'f': f})
    for i in range(len(menu)):
        t.append({'kind': 'incr', 'ci': i})
    t.append({'kind': 'norm'})
    for r in (1, 2):
        for fb, nb in (('XAIG', 'XAIG'), ('XAIG', 'nand'), ('AIG', 'FULL')):
            t.append({'kind': 'reuse', 'r': r, 'first_basis': fb, 'second_basis': nb})
    t.append({'kind': 'pool'})
    t.append({'kind': 'pymodel'})
    if tier == 'thorough':
        for lo in range(0, 6561, 243):
            t.append({'kind': 'dc3', 'r': 2, 'basis': 'XAIG', 'lo': lo, 'hi': lo + 243})
        for r in (3,):
            for b in bases3:
                t.append({'kind': 'models', 'n': 2, 'm': 2, 'r': r, 'basis': b, 'lo': 0, 'hi': 81, 'enum': False})
        for b in ('AIG', 'XAIG'):
            t.append({'kind': 'models', 'n': 2, 'm': 1, 'r': 4, 'basis': b, 'lo': 0, 'hi': 81, 'enum': False})
        mn = constraint_menu(3, 2)
        for i in range(len(mn)):
            t.append({'kind': 'cons3', 'ci': i})
    for tk in t:
        tk['cap'] = 30 if tier == 'quick' else 400
    return t


def describe(tier):
    return {
        'rule': 'finder configuration = (function model over {0,1,*}, gate budget r, basis, constraint set, need_normalized); for each: '
        'brute-force solution set over the whole r-gate space; find_circuit with the default solver answer and two alternative '
        'answers (other phase / reversed variable order); every brute-force solution (first 30 per configuration in the quick tier, 400 in the thorough tier) turned into a CNF '
        'model, checked against get_cnf() and fed back through find_circuit (must decode to itself); for the configurations '
        'marked enum: every model of the CNF distinct on the decoded variables is enumerated, decoded and looked up in the '
        'solution set, and counted; NoSolutionError iff the solution set is empty. wide: 4..12 inputs with a few care rows (the CNF stays small), r<=2; disjoint: two outputs f(x0,x1), g(x_{n-2},x_{n-1}) on 4-5 (6) inputs with 2 gates, all 100 pairs of binary operations, both output orders; incremental: search, add one constraint, search again on the same finder. reuse: one model object given to a normalized (or plain) finder and then to a second finder with another basis - second answer as on a fresh model, model unchanged; a time-out must not be an instance of NoSolutionError. Time-limit path through a synchronous fake '
        'pool (returns / times out) and the real fork-based pool for a few configurations. distinct = distinct configuration '
        'outcome classes.',
        'bounds': {
            'quick': 'n=1: m<=2, r<=2; n=2: all 81 models m=1 r<=3 (5 basis spellings), all 6561 models m=2 r<=2 (XAIG); n=3: 256 total '
            'functions r<=2 x 3 bases; custom bases r<=3; every single constraint and (16 total functions + 2 dont-care models) every pair (constraint on gate 2, constraint on gate 3) on n=2,r=2',
            'thorough': '+ every pair of constraints; n=2,m=2 all bases and r=3 (81 models); n=2,m=1,r=4 (AIG/XAIG); n=3 total functions r=3; n=3 all 6561 dont-care models r=2; constraints on n=3,r=2',
        }[tier],
        'exhaustive': True,
        'assumptions': ['search space = ordered pairs p<q (the orientation the encoding uses); fix_gate with one predecessor means '
                        '"that node is a predecessor of the gate"; vsat is a sound and complete solver'],
    }


def probe():
    f = make_finder(2, 2, 'XAIG', ['0110'], [])
    c = f.find_circuit()
    return [refmodel.abstract(c).to_json(), len(f.get_cnf())]


class _FakeFuture:
    def __init__(self, fn, args, mode):
        self.fn, self.args, self.mode = fn, args, mode

    def result(self):
        if self.mode == 'timeout':
            from concurrent.futures import TimeoutError

            raise TimeoutError()
        return self.fn(*self.args)


class _FakePool:
    mode = 'returns'

    def __init__(self, *a, **k):
        pass

    def __enter__(self):
        return self

    def __exit__(self, *a):
        return False

    def schedule(self, fn, args=(), timeout=None):
        return _FakeFuture(fn, args, _FakePool.mode)


def run_task(task, acc):
    k = task['kind']
    SOL_CAP[0] = task.get('cap', 400)
    if k == 'models':
        models = all_models(task['n'], task['m'])[task['lo']:task['hi']]
        for mr in models:
            check_config(acc, task['n'], task['r'], task['basis'], mr, [], enum_models=task['enum'])
        acc.sample({'n': task['n'], 'r': task['r'], 'basis': task['basis'], 'model': list(models[len(models) // 2]), 'constraints': []})
    elif k == 'total3':
        for f in range(task['lo'], task['hi']):
            mr = (''.join('1' if (f >> j) & 1 else '0' for j in range(8)),)
            check_config(acc, 3, task['r'], task['basis'], mr, [], enum_models=(task['r'] <= 1))
        acc.sample({'n': 3, 'r': task['r'], 'basis': task['basis'], 'model': ['01101001'], 'constraints': []})
    elif k == 'dc3':
        models = all_models(3, 1)[task['lo']:task['hi']]
        for mr in models:
            check_config(acc, 3, task['r'], task['basis'], mr, [])
    elif k == 'reuse':
        for mr in all_models(2, 1):
            for normalized in (True, False):
                check_model_reuse(acc, 2, task['r'], mr, {'basis': task['first_basis'], 'normalized': normalized}, task['second_basis'])
        for mr in all_models(1, 1):
            check_model_reuse(acc, 1, task['r'], mr, {'basis': task['first_basis'], 'normalized': True}, task['second_basis'])
    elif k == 'cons1':
        c = constraint_menu(2, 2)[task['ci']]
        for b in ('AIG', 'XAIG', 'FULL'):
            for mr in all_models(2, 1):
                _cons_config(acc, 2, 2, b, mr, [c], enum=(b == 'XAIG'))
        acc.sample({'n': 2, 'r': 2, 'basis': 'XAIG', 'model': ['0110'], 'constraints': [list(c)]})
    elif k == 'cons2':
        menu = constraint_menu(2, 2)
        c1 = menu[task['ci']]
        totals = [(''.join('1' if (f >> j) & 1 else '0' for j in range(4)),) for f in range(16)]
        extra = [('0*1*',), ('*11*',), ('0110', '0001'), ('01**', '*110')]
        for c2 in menu[task['ci']:]:
            if not task['full'] and _cgate(c2) == 2:
                continue
            for mr in totals + (extra if task['full'] else extra[:2]):
                _cons_config(acc, 2, 2, 'XAIG', mr, [c1, c2])
                if task['full']:
                    _cons_config(acc, 2, 2, 'FULL', mr, [c1, c2])
    elif k == 'cons3':
        c = constraint_menu(3, 2)[task['ci']]
        for f in range(0, 256):
            mr = (''.join('1' if (f >> j) & 1 else '0' for j in range(8)),)
            _cons_config(acc, 3, 2, 'XAIG', mr, [c])
    elif k == 'wide':
        ms = wide_models(task['n'])
        per = 8  # models per operand pair
        for b in ([task['basis']] if task.get('basis') else (('AIG', 'XAIG', 'FULL') if task['r'] == 1 else ('XAIG',))):
            for mr in (ms if task.get('pair') is None else ms[task['pair'] * per:(task['pair'] + 1) * per]):
                check_config(acc, task['n'], task['r'], b, mr, [], enum_models=False)
        acc.sample({'n': task['n'], 'r': task['r'], 'basis': 'XAIG', 'model': ['(g(x0, x_last) on rows 0..23 and the last 4 rows, * elsewhere)'], 'constraints': []})
    elif k == 'disjoint':
        # two outputs on disjoint input pairs: more essential inputs than gates + 1, still realisable
        n = task['n']
        rows = 1 << n
        binops = ('AND', 'OR', 'XOR', 'NAND', 'NOR', 'NXOR', 'GT', 'LT', 'GEQ', 'LEQ')
        f = task['f']
        for g in binops:
            t1 = ''.join('1' if refmodel.gate_bool(f, (bool((j >> (n - 1)) & 1), bool((j >> (n - 2)) & 1))) else '0' for j in range(rows))
            t2 = ''.join('1' if refmodel.gate_bool(g, (bool((j >> 1) & 1), bool(j & 1))) else '0' for j in range(rows))
            for mr in ((t1, t2), (t2, t1)):
                check_config(acc, n, 2, 'XAIG', mr, [], enum_models=False)
        acc.sample({'n': n, 'r': 2, 'basis': 'XAIG', 'model': ['f(x0,x1)', 'g(x_{n-2},x_{n-1})'], 'constraints': []})
    elif k == 'incr':
        con = constraint_menu(2, 2)[task['ci']]
        for b in ('XAIG', 'FULL'):
            for mr in all_models(2, 1):
                check_incremental(acc, 2, 2, b, mr, con)
        for mr in all_models(2, 1):
            if con[1] == 2 if con[0] == 'fix' else con[2] == 2:
                check_incremental(acc, 2, 1, 'XAIG', mr, con)
    elif k == 'norm':
        for b in ('AIG', 'XAIG', 'FULL', 'and+lnot'):
            for r in (1, 2):
                for mr in all_models(2, 1):
                    check_config(acc, 2, r, b, mr, [], normalized=True, enum_models=True)
        for c in constraint_menu(2, 2):
            for f in range(16):
                mr = (''.join('1' if (f >> j) & 1 else '0' for j in range(4)),)
                _cons_config(acc, 2, 2, 'XAIG', mr, [c], normalized=True)
    elif k == 'pool':
        import cirbo.synthesis.circuit_search as cs

        real = cs.pebble.ProcessPool
        try:
            cs.pebble.ProcessPool = _FakePool
            for mr in all_models(2, 1):
                for r in (1, 2):
                    _FakePool.mode = 'returns'
                    check_config(acc, 2, r, 'XAIG', mr, [], pool_mode='fake')
                    _FakePool.mode = 'timeout'
                    _timeout_config(acc, 2, r, 'XAIG', mr)
        finally:
            cs.pebble.ProcessPool = real
            _FakePool.mode = 'returns'
        # the real fork-based pool on a handful of configurations (pool workers of the harness are
        # daemonic; pebble needs to fork a child, so the flag is cleared for this worker)
        import multiprocessing

        try:
            multiprocessing.current_process()._config['daemon'] = False
        except Exception:  # noqa: BLE001
            pass
        for mr in (('0110',), ('0001',), ('0111', '0110'), ('0*1*',), ('1111',)):
            for r in (1, 2):
                check_config(acc, 2, r, 'XAIG', mr, [], pool_mode='real')
    elif k == 'pymodel':
        for mr in all_models(2, 1):
            for r in (1, 2):
                check_config(acc, 2, r, 'XAIG', mr, [], py_model=True)


def check_incremental(acc, n, r, bname, model_rows, con):
    """One finder object used twice: search, add a constraint, search again. The second answer must
    obey the constraint (and report no solution iff none exists with it)."""
    from cirbo.synthesis.exception import FixGateError, FixGateOrderError, ForbidWireOrderError, GateIsAbsentError, NoSolutionError

    case = {'n': n, 'r': r, 'basis': bname, 'model': list(model_rows), 'scenario': 'find_circuit, then constraint, then find_circuit', 'constraints': [list(con)]}
    feats = {'scenario': 'incremental', 'constraint_kinds': [_ckind(con)]}
    acc.states += 1
    acc.traces += 1
    acc.transitions += 2
    try:
        f = make_finder(n, r, bname, model_rows, [])
        try:
            f.find_circuit()
        except NoSolutionError:
            pass
        try:
            if con[0] == 'fix':
                from cirbo.core import gate as G

                f.fix_gate(con[1], first_predecessor=con[2], second_predecessor=con[3], gate_type=None if con[4] is None else getattr(G, con[4]))
            else:
                f.forbid_wire(con[1], con[2])
        except (FixGateError, FixGateOrderError, ForbidWireOrderError, GateIsAbsentError):
            return
        sols = solutions(n, r, bname, tuple(model_rows), [con])
        try:
            c2 = f.find_circuit()
        except NoSolutionError:
            if sols:
                acc.violation('find_circuit/completeness', case, f'second search: no solution, brute force finds {len(sols)}', feats)
            return
    except Exception as e:  # noqa: BLE001
        acc.violation(f'find_circuit/raises-{type(e).__name__}', case, repr(e), feats)
        return
    if not sols:
        acc.violation('find_circuit/solution-although-none-exists', case, 'second search after adding the constraint', feats)
        return
    got = check_returned(acc, case, feats, c2, n, r, bname, model_rows, [con], False)
    sp = space_of(n, r, tuple(basis_ops(bname)))
    if got is not None and got not in {(sp[i][0], pl) for i, pl in sols}:
        acc.violation('find_circuit/returned-circuit-not-in-brute-force-set', case, f'{got}', feats)


def wide_models(n):
    """Many inputs, few care rows (the CNF stays small): target g(x_p, x_q) on the rows that exercise the pair, the first 8 and the last 4
    rows, don't-care elsewhere."""
    rows = 1 << n
    out = []
    # operand pairs: (x0, x_last) and, from 11 inputs on, pairs whose decimal labels sort differently as strings
    # ('10' < '2', '11' < '9'): care rows = the four combinations of the pair (others 0) + a few fixed rows
    pairs = [(0, n - 1)]
    if n >= 11:
        pairs += [(2, n - 1), (9, 10), (1, 10)]
    for p, q in pairs:
        combos = [((1 << (n - 1 - p)) if a else 0) | ((1 << (n - 1 - q)) if b else 0) for a in (0, 1) for b in (0, 1)]
        care = sorted(set(combos + list(range(min(8, rows))) + list(range(max(0, rows - 4), rows))))
        for g in ('AND', 'NOR', 'XOR', 'GT', 'LEQ', 'NAND', 'LT', 'GEQ'):
            s_ = ['*'] * rows
            for j in care:
                a = (j >> (n - 1 - p)) & 1
                b = (j >> (n - 1 - q)) & 1
                s_[j] = '1' if refmodel.gate_bool(g, (bool(a), bool(b))) else '0'
            out.append((''.join(s_),))
    return out


def _cons_config(acc, n, r, b, mr, cons, normalized=False, enum=False):
    from cirbo.synthesis.exception import FixGateError, FixGateOrderError, ForbidWireOrderError, GateIsAbsentError

    try:
        check_config(acc, n, r, b, mr, cons, normalized=normalized, enum_models=enum)
    except (FixGateError, FixGateOrderError, ForbidWireOrderError, GateIsAbsentError):
        acc.count('constraint_rejected')


def check_model_reuse(acc, n, r, model_rows, first_kw, second_basis):
    """One model object serves two finders in a row (the first one normalized / with another basis): the second
    search must behave as on a fresh model, and the model must still describe the same partial function."""
    from cirbo.core.truth_table import TruthTableModel
    from cirbo.synthesis.circuit_search import CircuitFinderSat
    from cirbo.synthesis.exception import NoSolutionError
    import pysat.solvers as ps

    case = {'n': n, 'r': r, 'model': list(model_rows), 'reuse': {'first': first_kw, 'second_basis': second_basis}}
    acc.states += 1
    acc.traces += 1
    acc.transitions += 2
    model = TruthTableModel([list(s) for s in model_rows])
    before = [list(row) for row in model.get_model_truth_table()]
    ps.ENV.chooser = None
    try:
        f1 = CircuitFinderSat(model, r, basis=basis_arg(first_kw['basis']), need_normalized=first_kw['normalized'])
        try:
            f1.find_circuit()
        except NoSolutionError:
            pass
    except Exception as e:  # noqa: BLE001
        acc.violation(f'CircuitFinderSat/raises-{type(e).__name__}', case, repr(e))
        return
    after = [list(row) for row in model.get_model_truth_table()]
    sem = lambda tab: [[('1' if v else '0') if isinstance(v, (bool, int)) else '*' for v in row] for row in tab]  # noqa: E731
    if sem(after) != sem(before):
        acc.violation('CircuitFinderSat/modifies-the-model-it-was-given', case, f'{before} -> {after}')
    sols = solutions(n, r, second_basis, tuple(model_rows), [])
    try:
        f2 = CircuitFinderSat(model, r, basis=basis_arg(second_basis))
        c = f2.find_circuit()
        kind = 'ok'
    except NoSolutionError:
        kind, c = 'nosol', None
    except Exception as e:  # noqa: BLE001
        acc.violation(f'find_circuit/raises-{type(e).__name__}', case, repr(e))
        return
    if kind == 'nosol' and sols:
        acc.violation('find_circuit/no-solution-although-one-exists(model reused)', case, f'{len(sols)} solutions')
    elif kind == 'ok':
        if not sols:
            acc.violation('find_circuit/returns-circuit-although-none-exists(model reused)', case, '')
        else:
            check_returned(acc, case, {'basis': second_basis}, c, n, r, second_basis, model_rows, [], False)
    acc.outcome('reuse', (kind, bool(sols)))


def _timeout_config(acc, n, r, bname, mr):
    from cirbo.synthesis.exception import NoSolutionError, SolverTimeOutError

    case = {'n': n, 'r': r, 'basis': bname, 'model': list(mr), 'pool': 'fake-timeout'}
    acc.states += 1
    acc.transitions += 1
    f = make_finder(n, r, bname, mr, [])
    try:
        f.find_circuit(time_limit=1)
        acc.violation('find_circuit/ignores-solver-timeout', case, '')
    except SolverTimeOutError as e:
        if isinstance(e, NoSolutionError):
            acc.violation('find_circuit/timeout-is-also-a-NoSolutionError', case, 'a handler for NoSolutionError reads the time-out as "no circuit exists"')
        acc.outcome('timeout', (n, r))
    except NoSolutionError:
        # trivially unsatisfiable formulas are rejected before the solver is called
        if [] not in f.get_cnf():
            acc.violation('find_circuit/timeout-reported-as-no-solution', case, '')
    except Exception as e:  # noqa: BLE001
        acc.violation(f'find_circuit/timeout-raises-{type(e).__name__}', case, repr(e))


def replay(case, acc):
    if 'reuse' in case and 'task' not in case:
        return check_model_reuse(acc, case['n'], case['r'], tuple(case['model']), case['reuse']['first'], case['reuse']['second_basis'])
    if 'task' in case:
        return run_task(case['task'], acc)
    if case.get('pool') == 'fake-timeout':
        return _timeout_config(acc, case['n'], case['r'], case['basis'], tuple(case['model']))
    cons = [tuple(c) for c in case.get('constraints', [])]
    if case.get('scenario'):
        return check_incremental(acc, case['n'], case['r'], case['basis'], tuple(case['model']), cons[0])
    pm = case.get('pool')
    if pm == 'fake':
        import cirbo.synthesis.circuit_search as cs

        real = cs.pebble.ProcessPool
        cs.pebble.ProcessPool = _FakePool
        try:
            return check_config(acc, case['n'], case['r'], case['basis'], tuple(case['model']), cons, case.get('normalized', False), pool_mode='fake')
        finally:
            cs.pebble.ProcessPool = real
    check_config(acc, case['n'], case['r'], case['basis'], tuple(case['model']), cons, case.get('normalized', False),
                 enum_models=True, py_model=case.get('py_model', False), pool_mode=pm)
