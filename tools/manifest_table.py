# one add(...) per implemented check; everything else is listed under not_applicable
add('C01', 'bounded exhaustive enumeration of circuits x assignments x entry points against a reference evaluator (explicit-state, on the real code)',
    'Every circuit of F(n,k,FULL) up to the stated size, every output policy, all 2^n assignments and all seven evaluation entry points are executed on the real code and compared with the reference semantics; duplicated gate tables are compared entry by entry. Exhaustive within the bound, silent about larger circuits.',
    'trusted: vmc/refmodel.py gate table + evaluator (300 lines), CPython; bound n+k<=5', 'DESIGN.md 4 C01')
add('C03', 'bounded exhaustive enumeration of circuits x output policies x passes/pipelines, reference truth-table oracle',
    'Every circuit of F(n,k,A) up to the stated size, every output policy and every pass / cleanup / two-pass pipe is run on the real code; the result is compared with the reference truth table row by row, the interface, size and well-formedness are checked and the argument is re-abstracted to show it was not modified. Exhaustive within the bound.',
    'trusted: vmc/refmodel.py; bound n+k<=5 (unary family k<=4)', 'DESIGN.md 4 C03')
add('C18', 'bounded exhaustive enumeration of circuits x passes x pipeline expressions; postcondition predicates and pipeline-vs-sequencing comparison',
    'Postconditions of the five passes are evaluated as predicates on every result over F(n,k,A); 97 pipeline expressions (pipes, lists, nested compositions, cleanup) are compared with manual sequencing of .transform on every circuit. Exhaustive within the bound.',
    'trusted: vmc/refmodel.py reachability/evaluator; bound n+k<=5', 'DESIGN.md 4 C18')
add('C05', 'bounded exhaustive enumeration of circuits x output selections; CNF model set computed by full truth-table enumeration and compared with reference evaluation; every solver answer replayed',
    'For every circuit of F(n,k,A), every output policy and every selection of output indices the produced CNF is enumerated over all 2^|vars| assignments: satisfiable-under-x iff all selected outputs true, every cone gate has a variable equal to its value in every model, inputs are variables 1..n; is_circuit_satisfiable is executed once per model the solver environment may return.',
    'trusted: vmc/refmodel.py, vsat.brute_models (truth-table enumeration); bound n+k<=5, |vars|<=16', 'DESIGN.md 4 C05')
