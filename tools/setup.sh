#!/bin/sh
# offline setup: nothing to download or install; build optional C helpers and self-test the trusted base
cd "$(dirname "$0")/.." || exit 1
chmod +x check
export PYTHONDONTWRITEBYTECODE=1
export PYTHONPATH="${VERIF_REPO:-/repo}:$PWD/shims:$PWD"
PY=/venv/bin/python
[ -x "$PY" ] || PY=python3
mkdir -p build
if command -v gcc >/dev/null 2>&1; then
  gcc -O2 -shared -fPIC -o build/libvsat.so vmc/vsat.c || echo "warning: C solver not built, using the Python one"
fi
exec "$PY" -m vmc.selftest
