"""C02 - circuits stay well formed under every history of public mutations.

E2: breadth-first search over histories of public mutator calls (vmc.history) from five
start states; the well-formedness invariant and the copy monitor run on every distinct
state reached.
"""

import copy

from vmc import history, refmodel

ID = 'C02'


def depth(tier):
    return 2 if tier == 'quick' else 3


VARIANTS = ('deepcopy', 'fresh-labels')


def VARIANT_PRED(t, v):
    """deep-copied circuits from start state S4; labels passed as string objects of their own from S1"""
    return t.get('start') == ('S4' if v == 'deepcopy' else 'S1')


def plan(tier):
    t = []
    for s in history.START_NAMES:
        t.append({'kind': 'start', 'start': s})
        c = history.start(s)
        for op in history.menu(c, 'full'):
            d = depth(tier) if s in ('S0', 'S1', 'S4', 'S8') else 2  # depth 3 (thorough) from the four smallest start states
            t.append({'kind': 'sub', 'start': s, 'prefix': [op], 'depth': d, 'level': 'full' if d == 2 else ['full', 'lite', 'nocomp']})
    return t


def describe(tier):
    return {
        'rule': 'E2: BFS over histories of public calls (emplace_gate/add_gate over 5 gate types and all operand tuples, '
        'add_inputs, remove_gate, rename_gate, mark_as_output, set_outputs (all sequences <=2), set_inputs (all '
        'permutations), order_inputs/outputs, replace_inputs (every true/false split), make_block(_from_slice), '
        'delete/remove_block, into_bench, copy, connect_circuit (left: every duplicate-free tuple of the attached '
        "circuit's inputs x every tuple of base gates; right: every duplicate-free tuple of base inputs x every tuple of "
        'attached gates) and its wrappers with 3 attached circuits and naming/prefix options; invalid-argument calls '
        'included and required to raise) from 7 start states (empty; AND; NOT chain + repeated operand + block + output '
        'that is an input; after a right-connection; GT(x,x)/LNOT with repeated outputs). Invariant on every distinct '
        'state: operands/outputs exist, users index == operand multiset, inputs == INPUT gates, acyclic, top_sort both '
        'directions complete and ordered, evaluate_full_circuit/get_truth_table/dfs complete and equal to the reference evaluation of the current netlist (the circuit is queried before every mutation, so remembered results would be stale), blocks name existing gates; copy monitor: '
        'copy == original, blocks equal, mutating either side leaves the other unchanged.',
        'bounds': {'quick': 'depth 2 from each start state, full menu',
                   'thorough': 'depth 3 from the four smallest start states (step 1 full menu, step 2 one naming option for compositions, step 3 all non-composition calls), depth 2 from the others'}[tier],
        'exhaustive': True,
        'assumptions': ['state canonicalisation reads the raw users index (finer than public observation, never coarser)'],
    }


def probe():
    c = history.replay('S2', [['rename_gate', 'g0', 'r0'], ['connect_circuit', 'O1', ['g1'], ['a'], False, 'C0', True]])
    return refmodel.abstract(c).to_json()


def _blocks(c):
    return {k: (list(b.inputs), list(b.gates), list(b.outputs)) for k, b in c.blocks.items()}


MUTATORS = None


def _mutate_everything(c):
    """Apply a battery of mutators (exceptions ignored); used by the copy monitor."""
    from cirbo.core.circuit import gate as G

    labs = list(c.gates)
    steps = []
    if labs:
        steps.append(lambda: c.mark_as_output(labs[0]))
        steps.append(lambda: c.emplace_gate('zz_new', G.NOT, (labs[0],)))
    for l in labs:
        steps.append(lambda l=l: c.rename_gate(l, l + '_q'))
    steps.append(lambda: c.order_inputs(list(reversed(c.inputs))))
    steps.append(lambda: c.order_outputs(list(reversed(c.outputs))))
    steps.append(lambda: c.replace_inputs(list(c.inputs[:1]), []))
    steps.append(lambda: c.make_block('zz_block', list(c.gates)[:1], []))
    for b in list(c.blocks):
        steps.append(lambda b=b: c.blocks[b].gates.append('zz_ghost'))
        steps.append(lambda b=b: c.blocks[b].inputs.append('zz_ghost'))
        steps.append(lambda b=b: c.blocks[b].outputs.append('zz_ghost'))
    steps.append(lambda: c.outputs.append('zz_ghost_out'))
    steps.append(lambda: c.inputs.append('zz_ghost_in'))
    for l in list(c.gates):
        steps.append(lambda l=l: c.get_gate_users(l).append('zz_ghost_user'))
    for st in steps:
        try:
            st()
        except Exception:  # noqa: BLE001
            pass


def monitor(c, start_name, hist, acc):
    case = lambda: {'start': start_name, 'history': hist}  # noqa: E731
    last = hist[-1][0] if hist else 'start'
    probs = refmodel.wellformed(c)
    if probs:
        acc.violation(f'{last}/ill-formed', case, probs[:3], {'last_op': last})
        return
    net = refmodel.abstract(c)
    try:
        full = c.evaluate_full_circuit({i: False for i in c.inputs})
        if set(full) != set(net.gates):
            acc.violation(f'{last}/evaluate_full_circuit-incomplete', case, sorted(full))
        else:
            # values, not only keys: the library's answer after the mutation must be that of the current netlist
            ref = net.tables()
            nin = len(net.inputs)
            for asg, row in (({i: False for i in c.inputs}, 0), ({i: True for i in c.inputs}, (1 << nin) - 1)):
                vals = c.evaluate_full_circuit(asg)
                bad = [g for g in net.gates if vals.get(g) is not bool((ref[g] >> row) & 1)]
                if bad:
                    acc.violation(f'{last}/evaluate_full_circuit-wrong-values-after-mutation', case, f'gates {bad[:3]}')
                    break
            tt = c.get_truth_table()
            if [refmodel.tt_from_rows(r) for r in tt] != [ref[o] for o in net.outputs]:
                acc.violation(f'{last}/get_truth_table-wrong-after-mutation', case, '')
        ds = [g.label for g in c.dfs(list(c.gates))]
        if sorted(ds) != sorted(net.gates):
            acc.violation(f'{last}/dfs-incomplete', case, ds)
    except Exception as e:  # noqa: BLE001
        acc.violation(f'{last}/traversal-raises-{type(e).__name__}', case, repr(e))
        return
    # copy monitor
    try:
        c2 = copy.copy(c)
        c3 = copy.copy(c)
    except Exception as e:  # noqa: BLE001
        acc.violation(f'{last}/copy-raises-{type(e).__name__}', case, repr(e))
        return
    if not (c2 == c) or refmodel.abstract(c2).gates != net.gates or c2.inputs != c.inputs or c2.outputs != c.outputs:
        acc.violation(f'{last}/copy-not-equal', case, refmodel.abstract(c2).to_json())
        return
    if _blocks(c2) != _blocks(c):
        acc.violation(f'{last}/copy-blocks-differ', case, f'{_blocks(c2)} vs {_blocks(c)}')
        return
    if refmodel.wellformed(c2):
        acc.violation(f'{last}/copy-ill-formed', case, refmodel.wellformed(c2)[:2])
        return
    before = history.canon(c)
    _mutate_everything(c2)
    if history.canon(c) != before:
        acc.violation(f'{last}/copy-shares-state(original-changed)', case, '')
        return
    before3 = history.canon(c3)
    _mutate_everything(c)  # c is a throw-away replay instance
    if history.canon(c3) != before3:
        acc.violation(f'{last}/copy-shares-state(copy-changed)', case, '')
    acc.outcome('shape', (len(net.gates), len(net.inputs), len(net.outputs), len(net.blocks)))


def run_task(task, acc):
    if task['kind'] == 'start':
        c = history.start(task['start'])
        acc.states += 1
        acc.traces += 1
        monitor(c, task['start'], [], acc)
        acc.sample({'start': task['start'], 'history': []})
        return
    s = task['start']
    pre = task['prefix']
    # the prefix state itself
    try:
        c = history.replay(s, pre)
    except Exception as e:  # noqa: BLE001
        acc.count(f'raises:{pre[0][0]}:{type(e).__name__}')
        acc.transitions += 1
        return
    acc.transitions += 1
    acc.states += 1
    acc.traces += 1
    acc.count(f'ok:{pre[0][0]}')
    acc.outcome('state', hash(history.canon(c)))
    monitor(c, s, pre, acc)
    history.explore(s, pre, min(task['depth'], 2) if task.get('variant') else task['depth'], acc, monitor, task['level'])  # object variants: depth 2 in both tiers
    acc.sample({'start': s, 'history': pre})


def finish(total, tier):
    # invalid-argument calls of the menu must have been rejected
    for k in ('ok:emplace_gate',):
        pass


def replay(case, acc):
    if 'task' in case:
        return run_task(case['task'], acc)
    c = history.replay(case['start'], case['history'])
    monitor(c, case['start'], case['history'], acc)
