"""Self-test of the trusted base, run by MANIFEST.setup_cmd.

* vsat against truth-table brute force on ALL CNFs with <=3 variables and <=3 clauses of
  width <=3 (plus all 4-clause CNFs over 2 variables), incl. model enumeration counts;
* the cut-enumerator shim against the one recorded mockturtle expectation;
* refmodel gate table sanity (De Morgan style identities on all operand vectors).
"""

import itertools
import sys


def main():
    from vmc import vsat, refmodel

    n_formulas = 0
    for nv, maxc in ((3, 3), (2, 4), (4, 2)):
        lits = [l for v in range(1, nv + 1) for l in (v, -v)]
        clauses = []
        for w in (1, 2, 3):
            for vs in itertools.combinations(range(1, nv + 1), w):
                for signs in itertools.product((1, -1), repeat=w):
                    clauses.append([v * s for v, s in zip(vs, signs)])
        for k in range(0, maxc + 1):
            for f in itertools.combinations(clauses, k):
                f = [list(c) for c in f]
                n_formulas += 1
                bm = vsat.brute_models(f, nv)
                for phase in (False, True):
                    if vsat._C is not None:
                        for order in (None, list(range(nv, 0, -1))):
                            mc = vsat.solve(f, nv, phase=phase, order=order)
                            mp = vsat.solve_py(f, nv, phase=phase, order=order)
                            if mc != mp:
                                print('vsat self-test FAILED (C and Python builds differ)', f, mc, mp)
                                return 1
                    m = vsat.solve(f, nv, phase=phase)
                    if (m is None) != (not bm):
                        print('vsat self-test FAILED (sat/unsat)', f)
                        return 1
                    if m is not None and (len(m) != nv or not vsat.check_model(f, m)):
                        print('vsat self-test FAILED (model)', f, m)
                        return 1
                if k <= 2 or nv == 2:
                    cnt = sum(1 for _ in vsat.iter_models(f, nv))
                    if cnt != len(bm):
                        print('vsat self-test FAILED (enumeration)', f, cnt, len(bm))
                        return 1
                # incremental projected enumeration on every projection set
                for pr in ([1], [1, 2], list(range(1, nv + 1)), [nv]):
                    want = {tuple((a >> (v - 1)) & 1 for v in pr) for a in bm}
                    ms = list(vsat.iter_models_proj(f, nv, pr))
                    if not all(vsat.check_model(f, m) and len(m) == nv for m in ms):
                        print('vsat self-test FAILED (projected enumeration yields non-model)', f, pr)
                        return 1
                    got = [tuple(1 if m[v - 1] > 0 else 0 for v in pr) for m in ms]
                    if len(got) != len(set(got)) or set(got) != want:
                        print('vsat self-test FAILED (projected enumeration)', f, pr, got, want)
                        return 1
    # pigeonhole 4 into 3 (UNSAT with real search)
    def ph(p, h):
        v = lambda i, j: i * h + j + 1  # noqa: E731
        cl = [[v(i, j) for j in range(h)] for i in range(p)]
        for j in range(h):
            for a in range(p):
                for b in range(a + 1, p):
                    cl.append([-v(a, j), -v(b, j)])
        return cl

    if vsat.solve(ph(4, 3)) is not None or vsat.solve(ph(3, 3)) is None:
        print('vsat self-test FAILED (pigeonhole)')
        return 1

    import mockturtle_wrapper as mw

    text = ('INPUT(A)\nINPUT(B)\nINPUT(C)\n\nD = NOT(A)\nE = AND(B, D)\nF = OR(A, C)\n'
            'G = XOR(E, F)\n\nOUTPUT(G)')
    want = {
        'A': [['A']], 'B': [['B']], 'C': [['C']], 'D': [['A'], ['D']],
        'E': [['B', 'D'], ['A', 'B'], ['E']], 'F': [['A', 'C'], ['F']],
        'G': [['E', 'F'], ['A', 'C', 'E'], ['A', 'B', 'F'], ['A', 'B', 'C'], ['B', 'D', 'F'], ['G']],
    }
    mw.ENV.reset()
    if mw.enumerate_cuts(text, 5, 50, 10000) != want:
        print('cut enumerator self-test FAILED')
        return 1

    for a, b in itertools.product((False, True), repeat=2):
        g = refmodel.gate_bool
        ok = (
            g('NAND', (a, b)) == (not g('AND', (a, b)))
            and g('NOR', (a, b)) == (not g('OR', (a, b)))
            and g('NXOR', (a, b)) == (not g('XOR', (a, b)))
            and g('GT', (a, b)) == (a and not b) == (not g('LEQ', (a, b)))
            and g('LT', (a, b)) == (b and not a) == (not g('GEQ', (a, b)))
            and g('LNOT', (a, b)) == (not a) and g('RNOT', (a, b)) == (not b)
            and g('LIFF', (a, b)) == a and g('RIFF', (a, b)) == b
            and g('XOR', (a, b)) == (a != b) and g('AND', (a, b)) == (a and b) and g('OR', (a, b)) == (a or b)
        )
        if not ok:
            print('refmodel self-test FAILED')
            return 1
    print(f'selftest ok: vsat ({"C+Python" if vsat._C is not None else "Python only"}) on {n_formulas} formulas, cut shim, refmodel')
    return 0


if __name__ == '__main__':
    sys.exit(main())
