"""C11 - bench text round-trips and the parser is faithful.

(a) round trip: E1 circuits x output policies x label schemes x storage orders:
    parse(format(c)) and load(save(c)) must equal c (gates with operand order, input
    order, output order).
(a') long lines: gates with 5..130 operands and labels of 1..66 characters.
(b) layouts: for small netlists every permutation of the text's lines, operator-name
    case variants, optional-space variants, comment / blank lines at every position,
    BUFF and vdd aliases; the parsed circuit must be the netlist the text denotes.
"""

import itertools
import os
import shutil
import tempfile

from vmc import refmodel, space
from vmc.engine import guarded
from vmc.props import c03

ID = 'C11'
SMALL = space.alphabet('NOT', 'AND', 'GT', 'ALWAYS_TRUE')
ALPHAS = {'FULL': space.FULL, 'FULL_NO3': space.FULL_NO3, 'SMALL': SMALL, 'S4': space.S4}

POOL = ['core_vdd', 'xVDD', 'a', 'g1', 'input1', 'INPUTS', 'Output_x', 'outputs', 'AND', 'vdd', 'BUFF', 'x@y', 'n.1', 'b[0]',
        '_u', '1st', 'INPUT', 'OUTPUT', 'not', 'vddx', 'inputoutput', 'OuTpUt9']


def schemes(p):
    """Label vectors for p nodes: every rotation of the pool (each special label reaches
    every node position, hence every role)."""
    out = []
    for r in range(len(POOL)):
        out.append([POOL[(r + i) % len(POOL)] for i in range(p)])
    return out


def check_wide(acc):
    """Long bench lines: gates with many operands and long labels; round trip by string and by file."""
    from cirbo.core.circuit import Circuit, gate as G

    for arity in (5, 12, 24, 25, 26, 32, 40, 64, 130):
        for t in ('AND', 'XOR', 'NOR'):
            for lablen in (1, 9, 66):
                if arity * (lablen + 2) > 12000:
                    continue
                acc.states += 1
                acc.traces += 1
                acc.transitions += 3
                case = {'wide': {'arity': arity, 'type': t, 'label_length': lablen}}
                c = Circuit()
                ins = [('i%d_' % j) + 'q' * max(0, lablen - len('i%d_' % j)) for j in range(arity)]
                c.add_inputs(ins)
                c.emplace_gate('wide_' + 'w' * lablen, getattr(G, t), tuple(ins))
                c.emplace_gate('neg', G.NOT, ('wide_' + 'w' * lablen,))
                c.set_outputs(['neg', 'wide_' + 'w' * lablen])
                want = refmodel.abstract(c)
                try:
                    text = c.format_circuit()
                    c2 = Circuit.from_bench_string(text)
                    path = os.path.join(_tmpdir(), f'w{os.getpid()}.bench')
                    c.save_to_file(path)
                    c3 = Circuit.from_bench_file(path)
                except Exception as e:  # noqa: BLE001
                    acc.violation(f'rt/wide-gate-raises-{type(e).__name__}', case, repr(e)[:200])
                    continue
                if not _same(refmodel.abstract(c2), want) or not _same(refmodel.abstract(c3), want):
                    acc.violation('rt/wide-gate-round-trip-differs', case, '')
                acc.outcome('rt', ('wide', arity, lablen))
    acc.sample({'wide': {'arity': 40, 'type': 'XOR', 'label_length': 1}})


BAD_TEXTS = [
    ('dff', 'INPUT(a)\nOUTPUT(q)\nOUTPUT(n1)\nn1 = NOT(a)\nq = DFF(n1)\n'),
    ('undefined-output', 'INPUT(a)\nOUTPUT(y)\nOUTPUT(q)\ny = NOT(a)\n'),
    ('truncated-line', 'INPUT(a)\nINPUT(b)\nOUTPUT(y)\ny = AND(a,\n'),
    ('unknown-operator', 'INPUT(a)\nOUTPUT(y)\nOUTPUT(n1)\ny = FOO(a)\nn1 = NOT(a)\n'),
    ('undefined-operand', 'INPUT(a)\nOUTPUT(n1)\nOUTPUT(y)\nn1 = NOT(a)\ny = AND(a, zz)\n'),
    ('defined-twice', 'INPUT(a)\nOUTPUT(y)\ny = NOT(a)\ny = BUFF(a)\n'),
    ('input-twice', 'INPUT(a)\nINPUT(a)\nOUTPUT(a)\n'),
    ('good-other', 'INPUT(b)\nINPUT(a)\nOUTPUT(n1)\nOUTPUT(q)\nn1 = OR(a, b)\nq = NOT(n1)\n'),
]
GOOD_TEXTS = [
    'INPUT(a)\nINPUT(b)\nOUTPUT(y)\ny = AND(a, b)\nq = NOT(a)\nn1 = OR(q, b)\n',
    'INPUT(zz)\nOUTPUT(zz)\n',
    'INPUT(a)\nOUTPUT(y)\ny = NOT(a)\n',
]


def _denoted(text):
    import mockturtle_wrapper as mw

    ins, outs, gates, order = mw.parse(text)
    g = {i: ('INPUT', ()) for i in ins}
    for l, (op, ops) in gates.items():
        g[l] = ({'BUFF': 'IFF', 'VDD': 'ALWAYS_TRUE'}.get(op, op), tuple(ops))
    return refmodel.Net(ins, outs, g)


def check_sequences(acc):
    """A parse (rejected or accepted) followed by the parse of a well-formed text in the same process: the second
    result must be what that text denotes - nothing may survive from the first."""
    from cirbo.core.circuit import Circuit

    for bname, bad in BAD_TEXTS:
        for good in GOOD_TEXTS:
            for via in ('string', 'file'):
                acc.states += 1
                case = {'first_text': bname, 'then': good, 'via': via}
                try:
                    if via == 'string':
                        Circuit.from_bench_string(bad)
                    else:
                        path = os.path.join(_tmpdir(), f'bad{os.getpid()}.bench')
                        with open(path, 'w') as f:
                            f.write(bad)
                        Circuit.from_bench_file(path)
                except Exception:  # noqa: BLE001
                    acc.count('first_text_rejected')
                _parse_expect(acc, 'sequence', case, good, _denoted(good))
    acc.outcome('rt', ('sequence',))


DEEP_BENCH_PATTERNS = ('not-and', 'xor-nor', 'iff-not', 'or3')


def check_deep(acc, pattern, L, order):
    """The text of a chain deeper than the recursion limit, gate lines in definition order, from the output down,
    or interleaved."""
    net = space.deep_chain_net(pattern, L)
    glabs = [l for l in net.gates if l not in net.inputs]
    if order == 'reversed':
        glabs = glabs[::-1]
    elif order == 'interleaved':
        glabs = glabs[::2] + glabs[1::2][::-1]
    lines = [f'INPUT({i})' for i in net.inputs] + [f'OUTPUT({o})' for o in net.outputs]
    lines += [_gate_line(l, net.gates[l][0], net.gates[l][1]) for l in glabs]
    text = '\n'.join(lines) + '\n'
    acc.states += 1
    _parse_expect(acc, 'deep', {'deep_chain': pattern, 'length': L, 'order': order}, text, net)
    acc.outcome('rt', ('deep', pattern, L, order))


COMMENT_CHARS = ['\x0b', '\x0c', '\x1c', '\x1d', '\x1e', '\x1f', '\x85', '\u2028', '\u2029', '\t', '\xa0', '\u3000', '\ufeff', '\x00']


def check_comment_chars(acc):
    """Comment lines may contain anything up to the end of the line ('\n'): characters that other notions of
    "line" or "blank" treat specially must not end the comment or be executed as text."""
    from cirbo.core.circuit import Circuit

    good = 'INPUT(a)\nINPUT(b)\nOUTPUT(y)\ny = AND(a, b)\nq = NOT(a)\n'
    want = _denoted(good)
    tails = ['OUTPUT(q)', 'y = OR(a, b)', 'INPUT(zz)', 'plain words']
    for ch in COMMENT_CHARS:
        for tail in tails:
            for where in (0, 2, 3, 5):
                lines = good.split('\n')[:-1]
                lines.insert(where, f'# disabled:{ch}{tail}')
                text = '\n'.join(lines) + '\n'
                for via in ('string', 'file'):
                    acc.states += 1
                    case = {'comment_char': repr(ch), 'tail': tail, 'line': where, 'via': via}
                    if via == 'string':
                        _parse_expect(acc, 'comment', case, text, want)
                    else:
                        acc.transitions += 1
                        acc.traces += 1
                        path = os.path.join(_tmpdir(), f'cc{os.getpid()}.bench')
                        with open(path, 'w', encoding='utf-8', newline='') as f:
                            f.write(text)
                        try:
                            c = Circuit.from_bench_file(path)
                        except Exception as e:  # noqa: BLE001
                            acc.violation(f'comment/raises-{type(e).__name__}', case, repr(e)[:200])
                            continue
                        if not _same(refmodel.abstract(c), want):
                            acc.violation('comment/parsed-netlist-differs', case, f'{refmodel.abstract(c).to_json()}')
    acc.outcome('rt', ('comment-chars',))


def plan(tier):
    t = [{'kind': 'wide', 'n': 0, 'k': 0, 'prefix': [], 'alpha': 'FULL'}, {'kind': 'sequences'}, {'kind': 'commentchars'}]
    for pat in ('not-and', 'xor-nor'):
        for order in ('forward', 'reversed'):
            t.append({'kind': 'deep', 'pattern': pat, 'L': space.HUGE_LENGTH, 'order': order})
    for pat in DEEP_BENCH_PATTERNS:
        for L in space.DEEP_LENGTHS[tier]:
            for order in ('forward', 'reversed', 'interleaved'):
                t.append({'kind': 'deep', 'pattern': pat, 'L': L, 'order': order})

    def fam(kind, n, k, a, split, **kw):
        for tk in space.tasks(n, k, ALPHAS[a], split):
            tk.update(kind=kind, alpha=a, **kw)
            t.append(tk)

    fam('rt', 0, 1, 'FULL', 0, pol='all')
    fam('rt', 1, 1, 'FULL', 0, pol='all')
    fam('rt', 1, 2, 'FULL', 1, pol='core')
    fam('rt', 2, 1, 'FULL', 1, pol='all')
    fam('rt', 2, 1, 'S4', 1, pol='core')
    fam('rt', 2, 2, 'FULL' if tier == 'thorough' else 'FULL_NO3', 1, pol='core' if tier == 'thorough' else 'last2')
    fam('rt', 3, 1, 'FULL', 1, pol='core' if tier == 'thorough' else 'last2')
    fam('perm', 2, 2, 'SMALL', 1)
    fam('perm', 1, 2, 'SMALL', 1)
    fam('perm', 2, 1, 'FULL', 1)
    fam('spell', 2, 1, 'FULL', 1)
    fam('spell', 2, 2, 'FULL_NO3', 1)
    fam('spell', 2, 1, 'S4', 1)
    if tier == 'thorough':
        fam('perm', 2, 2, 'FULL_NO3', 1, lite=True)
        fam('perm', 3, 2, 'SMALL', 1)
        fam('rt', 2, 3, 'SMALL', 1, pol='last2')
    return t


def describe(tier):
    return {
        'rule': 'huge: chain texts of 70000 gates (1.5 MB) forward and from the output down; comment lines containing each of 14 characters that some notion of line/blank treats specially (VT, FF, FS..US, NEL, LS, PS, TAB, NBSP, BOM, NUL) followed by text that looks like a declaration, at 4 positions, by string and file; sequences: 8 first texts (7 malformed in different ways, 1 well formed) x 3 well-formed second texts x {string, file}: the second parse must be exactly what its text denotes; deep: chain texts of 1200/3000 (7000) gates, lines in definition order / from the output down / interleaved; wide: gates with up to 130 operands / 66-character labels (long lines) by string and file; rt: circuit of F(n,k,A) x output policy x 22 label schemes (keyword-prefixed, operator-named, '
        'punctuated, digit-first labels rotated through every node position) x storage orders (creation order, '
        'reversed via rename, inputs reordered) -> parse(format(c)) == c and from_bench_file(save_to_file(c)) == c. '
        'perm: every permutation of the text lines (INPUT/gate/OUTPUT lines, use before definition, outputs first). '
        'spell: operator names lower/upper/mixed case, space variants around "=", "," and inside parentheses, '
        'comment and blank lines at every position, BUFF/vdd aliases, with/without trailing newline. '
        'distinct = distinct (kind, layout feature) outcomes.',
        'bounds': {
            'quick': 'rt: F(0..1,<=2,FULL), F(2,1,FULL), F(2,1,4-ary), F(2,2,FULL\\S3), F(3,1,FULL); perm: F(<=2,2,{NOT,AND,GT,TRUE}) '
            'all 720 line orders, F(2,1,FULL); spell: F(2,1,FULL), F(2,2,FULL\\S3), F(2,1,4-ary)',
            'thorough': '+ rt: F(2,2,FULL) core policies, F(2,3,small); perm: F(3,2,small), F(2,2,FULL\\S3) gate-line permutations',
        }[tier],
        'exhaustive': True,
        'assumptions': ['bench identifiers = non-empty strings over [A-Za-z0-9_@.\\[\\]]'],
    }


def probe():
    from cirbo.core.circuit import Circuit

    c = Circuit.from_bench_string('INPUT(a)\nINPUT(b)\nOUTPUT(g)\ng = gt(a, h)\nh = BUFF(b)\n')
    return [refmodel.abstract(c).to_json(), c.format_circuit()]


def _same(net_a, net_b):
    return net_a.gates == net_b.gates and net_a.inputs == net_b.inputs and net_a.outputs == net_b.outputs


_TMP = None


def _tmpdir():
    global _TMP
    if _TMP is None:
        base = '/dev/shm' if os.path.isdir('/dev/shm') else None
        _TMP = tempfile.mkdtemp(prefix='vmc_c11_', dir=base)
        import atexit

        atexit.register(shutil.rmtree, _TMP, True)
    return _TMP


def check_rt(n, gates, acc, pol):
    from cirbo.core.circuit import Circuit

    k = len(gates)
    p = n + k
    if pol == 'all':
        pols = space.output_policies(n, k, 2, gates=gates)
    elif pol == 'core':
        pols = c03.core_policies(n, k, gates)
    else:
        pols = [(p - 1,), (p - 1, 0), ()] if p else [()]
    first = True
    for labs in schemes(p):
        for outs in pols:
            for order in ('creation', 'renamed', 'inputs-reversed'):
                if order != 'creation' and (outs != pols[0]):
                    continue
                acc.states += 1
                acc.traces += 1
                case = lambda: {**space.spec_json(n, gates, outs), 'labels': labs, 'order': order}  # noqa: E731
                try:
                    c = space.build(n, gates, outs, labs)
                    if order == 'renamed' and p:
                        # rename every node away and back, first node first: reverses storage order
                        for l in labs:
                            c.rename_gate(l, l + '_tmp')
                            c.rename_gate(l + '_tmp', l)
                    elif order == 'inputs-reversed':
                        c.set_inputs(list(reversed(c.inputs)))
                except Exception as e:  # noqa: BLE001
                    acc.violation('rt/build-raises', case, repr(e))
                    continue
                want = refmodel.abstract(c)
                acc.transitions += 2
                ok, text = guarded(acc, 'format_circuit', case, c.format_circuit)
                if not ok:
                    continue
                ok, c2 = guarded(acc, 'from_bench_string(format_circuit)', case, Circuit.from_bench_string, text)
                if not ok:
                    continue
                got = refmodel.abstract(c2)
                feats = {'label_kinds': sorted({_label_kind(l) for l in labs})}
                if not _same(got, want) or not (c2 == c):
                    acc.violation('rt/parse-format-differs', case, f'text={text!r} parsed={got.to_json()}', feats)
                    continue
                probs = refmodel.wellformed(c2, deep=False)
                if probs:
                    acc.violation('rt/parsed-circuit-ill-formed', case, probs[:2])
                if first or outs == pols[0] and order == 'creation':
                    path = os.path.join(_tmpdir(), f'c{os.getpid()}.bench')
                    acc.transitions += 2
                    ok, _ = guarded(acc, 'save_to_file', case, c.save_to_file, path)
                    if ok:
                        ok, c3 = guarded(acc, 'from_bench_file(save_to_file)', case, Circuit.from_bench_file, path)
                        if ok and not _same(refmodel.abstract(c3), want):
                            acc.violation('rt/load-save-differs', case, f'{refmodel.abstract(c3).to_json()}', feats)
                    first = False
                acc.outcome('rt', (order, tuple(sorted({_label_kind(l) for l in labs}))))
    acc.sample({**space.spec_json(n, gates, pols[0]), 'labels': schemes(p)[2], 'order': 'creation'})


def _label_kind(l):
    u = l.upper()
    if u.startswith('INPUT'):
        return 'input-prefixed'
    if u.startswith('OUTPUT'):
        return 'output-prefixed'
    if u in ('AND', 'BUFF', 'NOT') or u.startswith('VDD'):
        return 'operator-named'
    if not l[0].isalpha():
        return 'nonalpha-first'
    if any(ch in l for ch in '@.[]'):
        return 'punctuated'
    return 'plain'


def _gate_line(lab, t, ops, name=None, eq=' = ', comma=', ', lpar='(', rpar=')'):
    name = name if name is not None else ('BUFF' if t == 'IFF' else t)
    return f'{lab}{eq}{name}{lpar}{comma.join(ops)}{rpar}'


def _parse_expect(acc, sig, case, text, want, feats=None):
    from cirbo.core.circuit import Circuit

    acc.transitions += 1
    acc.traces += 1
    ok, c = guarded(acc, sig, case, Circuit.from_bench_string, text)
    if not ok:
        return
    got = refmodel.abstract(c)
    if not _same(got, want):
        acc.violation(f'{sig}/parsed-netlist-differs', case, f'text={text!r} parsed={got.to_json()} expected={want.to_json()}', feats)
        return
    probs = refmodel.wellformed(c, deep=False)
    if probs:
        acc.violation(f'{sig}/parsed-circuit-ill-formed', case, probs[:2], feats)
        return
    # "computes exactly what the text denotes"
    try:
        tt = c.get_truth_table()
    except Exception as e:  # noqa: BLE001
        acc.violation(f'{sig}/cannot-evaluate', case, repr(e), feats)
        return
    if [refmodel.tt_from_rows(r) for r in tt] != want.out_tables():
        acc.violation(f'{sig}/function-differs', case, '', feats)


def check_perm(n, gates, acc, lite=False):
    k = len(gates)
    labs = ['a', 'b', 'c'][:n] + ['g', 'h', 'i'][:k]
    outs = (n + k - 1, 0) if n else (n + k - 1,)
    net = space.spec_net(n, gates, outs, labs)
    in_lines = [('I', l) for l in net.inputs]
    g_lines = [('G', l) for l in labs[n:]]
    o_lines = [('O', i) for i in range(len(net.outputs))]
    items = in_lines + g_lines + o_lines
    if lite:
        perms = (tuple(in_lines) + gp + tuple(o_lines) for gp in itertools.permutations(g_lines))
    else:
        perms = itertools.permutations(items)
    for perm in perms:
        acc.states += 1
        lines = []
        ins, outl = [], []
        for kind, x in perm:
            if kind == 'I':
                lines.append(f'INPUT({x})')
                ins.append(x)
            elif kind == 'O':
                lines.append(f'OUTPUT({net.outputs[x]})')
                outl.append(net.outputs[x])
            else:
                t, ops = net.gates[x]
                lines.append(_gate_line(x, t, ops))
        text = '\n'.join(lines) + '\n'
        want = refmodel.Net(ins, outl, net.gates)
        _parse_expect(acc, 'perm', lambda: {'bench': text}, text, want)
    acc.outcome('perm', (n, k))
    acc.sample({'bench': text})


def _cases(name):
    v = {name.lower(), name.upper(), name.capitalize(), ''.join(ch.upper() if i % 2 else ch.lower() for i, ch in enumerate(name))}
    return sorted(v)


SPACINGS = [
    dict(eq='=', comma=',', lpar='(', rpar=')'),
    dict(eq=' = ', comma=', ', lpar='(', rpar=')'),
    dict(eq='  =  ', comma=' , ', lpar='( ', rpar=' )'),
    dict(eq=' =', comma=' ,', lpar='(', rpar=' )'),
    dict(eq='= ', comma=',  ', lpar='(  ', rpar=')'),
]


def check_spell(n, gates, acc):
    k = len(gates)
    labs = ['a', 'b', 'c'][:n] + ['g', 'h', 'i'][:k]
    outs = (n + k - 1, 0)
    net = space.spec_net(n, gates, outs, labs)
    base_in = [f'INPUT({l})' for l in net.inputs]
    base_out = [f'OUTPUT({o})' for o in net.outputs]

    def glines(variant_for_last=None, spacing=None):
        ls = []
        for j, l in enumerate(labs[n:]):
            t, ops = net.gates[l]
            kw = dict(spacing or SPACINGS[1])
            nm = None
            if j == k - 1 and variant_for_last is not None:
                nm = variant_for_last
            if t in ('ALWAYS_TRUE', 'ALWAYS_FALSE') and not ops:
                ls.append(f'{l}{kw["eq"]}{nm or t}()')
            else:
                ls.append(_gate_line(l, t, ops, nm, **kw))
        return ls

    last_t = gates[-1][0]
    names = _cases(last_t)
    if last_t == 'IFF':
        names += _cases('BUFF')
    for nm in names:
        for sp in SPACINGS:
            acc.states += 1
            text = '\n'.join(base_in + glines(nm, sp) + base_out) + '\n'
            _parse_expect(acc, 'spell', lambda: {'bench': text}, text, net, {'feature': 'case/spacing'})
            acc.outcome('spell', ('case-spacing', nm == nm.upper(), SPACINGS.index(sp)))
    if last_t == 'ALWAYS_TRUE':
        for v in ('vdd', 'VDD', 'Vdd'):
            for eq in ('=', ' = ', '  =  '):
                acc.states += 1
                ls = glines()
                ls[-1] = f'{labs[-1]}{eq}{v}'
                text = '\n'.join(base_in + ls + base_out) + '\n'
                _parse_expect(acc, 'spell-vdd', lambda: {'bench': text}, text, net, {'feature': 'vdd'})
                acc.outcome('spell', ('vdd', v, eq))
    # comment / blank lines at every position, and no trailing newline
    canon = base_in + glines() + base_out
    for pos in range(len(canon) + 1):
        for extra in ('# a comment', '', '#', '# INPUT(zz)', '#g = AND(a, b)'):
            acc.states += 1
            ls = canon[:pos] + [extra] + canon[pos:]
            text = '\n'.join(ls) + '\n'
            _parse_expect(acc, 'spell-comment', lambda: {'bench': text}, text, net, {'feature': 'comment/blank'})
    acc.outcome('spell', ('comments', len(canon)))
    acc.states += 1
    text = '\n'.join(canon)
    _parse_expect(acc, 'spell-no-trailing-newline', lambda: {'bench': text}, text, net, {'feature': 'no-trailing-newline'})
    acc.sample({'bench': '\n'.join(base_in + glines(names[0], SPACINGS[2]) + base_out) + '\n'})


def run_task(task, acc):
    if task['kind'] == 'wide':
        return check_wide(acc)
    if task['kind'] == 'sequences':
        return check_sequences(acc)
    if task['kind'] == 'commentchars':
        return check_comment_chars(acc)
    if task['kind'] == 'deep':
        return check_deep(acc, task['pattern'], task['L'], task['order'])
    alpha = ALPHAS[task['alpha']]
    for gates in space.enum_gates(task['n'], task['k'], alpha, space.prefix_from_task(task)):
        if task['kind'] == 'rt':
            check_rt(task['n'], gates, acc, task['pol'])
        elif task['kind'] == 'perm':
            check_perm(task['n'], gates, acc, task.get('lite', False))
        else:
            check_spell(task['n'], gates, acc)


def replay(case, acc):
    from cirbo.core.circuit import Circuit

    if 'task' in case:
        return run_task(case['task'], acc)
    if 'wide' in case:
        return check_wide(acc)
    if 'first_text' in case:
        return check_sequences(acc)
    if 'comment_char' in case:
        return check_comment_chars(acc)
    if 'deep_chain' in case:
        return check_deep(acc, case['deep_chain'], case['length'], case['order'])
    if 'bench' in case:
        # the denoted netlist is re-derived by the shim's independent reader
        import mockturtle_wrapper as mw

        text = case['bench']
        ins, outs, gates, order = mw.parse(text)
        g = {i: ('INPUT', ()) for i in ins}
        for l, (op, ops) in gates.items():
            t = {'BUFF': 'IFF', 'VDD': 'ALWAYS_TRUE'}.get(op, op)
            g[l] = (t, tuple(ops))
        want = refmodel.Net(ins, outs, g)
        return _parse_expect(acc, 'replay', case, text, want)
    n, gates, outs = space.spec_from_json(case)
    check_rt(n, gates, acc, 'all')
