"""C10 - circuit composition computes the documented functional composition.

Base circuits from E1 families x attached circuits (8) x every connector choice in both
directions x wrappers x naming options, then a second composition on the result; oracle:
the netlist-model composition below (written from the docstrings), compared on inputs,
outputs, truth table, blocks, well-formedness, and block re-extraction.
"""

import itertools

from vmc import history, refmodel, space
from vmc.engine import guarded

ID = 'C10'
BASE_ALPHA = space.alphabet('NOT', 'AND', 'GT', 'XOR')
OTHERS = ('O1', 'O2', 'O3', 'O4', 'O5', 'O6', 'O7', 'O8', 'O9', 'O10')


class Reject(Exception):
    """The documented preconditions do not hold: the real call must raise."""


def model_connect(base, oth, this_conn, other_conn, right, name, add_prefix):
    """Netlist-model composition (documented semantics). Returns a new Net."""
    this_conn, other_conn = list(this_conn), list(other_conn)
    if name in base.blocks:
        raise Reject('block exists')
    for l in this_conn:
        if l not in base.gates:
            raise Reject('missing base connector')
    for l in other_conn:
        if l not in oth.gates:
            raise Reject('missing other connector')
    if len(this_conn) != len(other_conn):
        raise Reject('length')
    if right:
        if len(set(this_conn)) != len(this_conn) or any(base.gates[l][0] != 'INPUT' for l in this_conn):
            raise Reject('right: base connectors must be distinct inputs')
    else:
        if len(set(other_conn)) != len(other_conn) or any(oth.gates[l][0] != 'INPUT' for l in other_conn):
            raise Reject('left: other connectors must be distinct inputs')
    prefix = name + '@' if (name != '' and add_prefix) else ''
    res = base.copy()
    # label of every gate of the attached circuit inside the result
    repeated = {}  # right only: base input -> base label that already carries the same attached gate
    place = {}
    for o, t in zip(other_conn, this_conn):
        if right and o in place:
            repeated[t] = place[o]
        else:
            place[o] = t
    newlab = {}
    for l in oth.gates:
        newlab[l] = place[l] if l in place else prefix + l
    fresh = [newlab[l] for l in oth.gates if l not in place]
    if len(set(fresh)) != len(fresh) or any(l in base.gates for l in fresh):
        raise Reject('label clash')
    order = oth.topo()
    for l in order:
        t, ops = oth.gates[l]
        mapped = tuple(newlab[o] for o in ops)
        if l in place:
            if right:
                res.gates[newlab[l]] = (t, mapped)  # base input replaced by the attached gate
            # left: the attached input is identified with the base gate: nothing to add
        else:
            res.gates[newlab[l]] = (t, mapped)
    for t, carrier in repeated.items():
        # every pair is identified: the base input becomes (a buffer of) the attached gate.
        # The buffer is one possible representation; comparisons for such calls are
        # restricted to interface + truth table (see check_step).
        res.gates[t] = ('IFF', (carrier,))
    res.outputs = [o for o in base.outputs if o not in this_conn] + [newlab[o] for o in oth.outputs if o not in other_conn]
    res.inputs = [i for i in base.inputs if res.gates[i][0] == 'INPUT'] + [newlab[i] for i in oth.inputs if i not in other_conn]
    for bname, (bi, bg, bo) in oth.blocks.items():
        nb = prefix + bname
        if nb in res.blocks:
            raise Reject('inner block name clash')
        res.blocks[nb] = ([newlab[x] for x in bi], [newlab[x] for x in bg], [newlab[x] for x in bo])
    if name != '':
        if name in res.blocks:
            raise Reject('block name clash')
        members = [newlab[l] for l in oth.gates if oth.gates[l][0] != 'INPUT' and (l not in place or right)]
        res.blocks[name] = ([newlab[x] for x in oth.inputs], members, [newlab[x] for x in oth.outputs])
    if len(set(res.inputs)) != len(res.inputs):
        raise Reject('duplicate inputs')
    return res


class NotModelled(Exception):
    pass


def wrapper_args(kind, base, oth, extra):
    """Translate a wrapper call into connect_circuit arguments (from the docstrings)."""
    if kind == 'connect_left':
        return extra, list(oth.inputs), False
    if kind == 'connect_right':
        return list(base.inputs), extra, True
    if kind == 'connect_inputs':
        return list(base.inputs), list(oth.inputs), True
    if kind == 'extend_left':
        return list(base.outputs), list(oth.inputs), False
    if kind == 'extend_right':
        return list(base.inputs), list(oth.outputs), True
    if kind == 'add_circuit':
        return [], [], False
    raise KeyError(kind)


def calls_for(base, oname, level):
    """All composition calls for one (base, attached) pair as JSON ops of vmc.history."""
    oth = history.other_net(oname)
    labs = list(base.gates)
    ins = list(base.inputs)
    ogates = list(oth.gates)
    oin = list(oth.inputs)
    namings = [('', True), ('B', True), ('B', False)] if level == 'full' else [('B', True)]
    heavy = oname == 'O10'  # five nodes: one naming option, at most two right connectors
    if heavy:
        namings = [('B', True)]
    out = []
    for name, pref in namings:
        for r in range(0, len(oin) + 1):
            for oc in itertools.permutations(oin, r):
                for tc in itertools.product(labs, repeat=r):
                    out.append(['connect_circuit', oname, list(tc), list(oc), False, name, pref])
        for r in range(1, min(len(ins), 2 if heavy else 3) + 1):
            for tc in itertools.permutations(ins, r):
                if r == 3 and list(tc) != sorted(tc):
                    continue  # three connectors: one order of the base inputs, every tuple of attached gates
                for oc in itertools.product(ogates, repeat=r):
                    out.append(['connect_circuit', oname, list(tc), list(oc), True, name, pref])
        for tc in itertools.product(labs, repeat=len(oin)):
            out.append(['connect_left', oname, list(tc), name, pref])
        if len(ins) <= 3:
            for oc in itertools.product(ogates, repeat=len(ins)):
                out.append(['connect_right', oname, list(oc), name, pref])
        out.append(['connect_inputs', oname, name, pref])
        out.append(['extend_circuit', oname, False, name, pref])
        out.append(['extend_circuit', oname, True, name, pref])
        # explicit connector lists, including explicitly empty ones (k = 0 of a partial list)
        out.append(['extend_circuit_x', oname, [], [], False, name, pref])
        out.append(['extend_circuit_x', oname, [], [], True, name, pref])
        if labs and oin:
            out.append(['extend_circuit_x', oname, [labs[-1]], [oin[0]], False, name, pref])
        if ins:
            out.append(['extend_circuit_x', oname, [ins[0]], [ogates[-1]], True, name, pref])
        out.append(['add_circuit', oname, name, pref])
    return out


def model_apply(base, op):
    oname = op[1]
    oth = history.other_net(oname)
    k = op[0]
    if k == 'connect_circuit':
        return model_connect(base, oth, op[2], op[3], op[4], op[5], op[6])
    if k == 'connect_left':
        tc, oc, right = wrapper_args('connect_left', base, oth, op[2])
        return model_connect(base, oth, tc, oc, right, op[3], op[4])
    if k == 'connect_right':
        tc, oc, right = wrapper_args('connect_right', base, oth, op[2])
        return model_connect(base, oth, tc, oc, right, op[3], op[4])
    if k == 'connect_inputs':
        tc, oc, right = wrapper_args('connect_inputs', base, oth, None)
        return model_connect(base, oth, tc, oc, right, op[2], op[3])
    if k == 'extend_circuit':
        tc, oc, right = wrapper_args('extend_right' if op[2] else 'extend_left', base, oth, None)
        return model_connect(base, oth, tc, oc, right, op[3], op[4])
    if k == 'extend_circuit_x':
        return model_connect(base, oth, op[2], op[3], op[4], op[5], op[6])
    if k == 'add_circuit':
        return model_connect(base, oth, [], [], False, op[2], op[3])
    raise KeyError(k)


def _blocks_norm(blocks):
    return {k: (list(a), sorted(b), list(c)) for k, (a, b, c) in blocks.items()}


def check_step(c, model, op, acc, case, feats):
    """Apply op to the real circuit c (in place) and to the model; compare. Returns the new
    model net or None when the branch ends."""
    from cirbo.core.circuit.exceptions import CircuitError

    acc.transitions += 1
    acc.traces += 1
    oname = op[1]
    feats = dict(feats)
    feats['repeated_right'] = _repeated_right(op, model)
    if feats['repeated_right']:
        acc.count('repeated_right_connector')
    oth_before = history.other_net(oname).key()
    try:
        want = model_apply(model, op)
        verdict = 'ok'
    except Reject as e:
        want, verdict = None, 'reject'
        why = str(e)
    except NotModelled:
        want, verdict = None, 'unmodelled'
    oth_obj = history.other(oname)
    history.OTHER_OVERRIDE[oname] = oth_obj
    try:
        try:
            c2 = history.apply_op(c, op)
            raised = None
        except CircuitError as e:
            raised = e
        except Exception as e:  # noqa: BLE001
            acc.violation(f'{op[0]}/raises-{type(e).__name__}', case, repr(e), feats)
            return None
    finally:
        history.OTHER_OVERRIDE.pop(oname, None)
    # the attached circuit is never modified
    if refmodel.abstract(oth_obj).key() != oth_before:
        acc.violation(f'{op[0]}/attached-circuit-modified', case, '', feats)
    if verdict == 'unmodelled':
        acc.count('unmodelled_repeated_right_connector')
        if raised is None:
            probs = refmodel.wellformed(c2)
            if probs:
                acc.violation(f'{op[0]}/ill-formed', case, probs[:3], feats)
        return None
    if verdict == 'reject':
        if raised is None:
            acc.violation(f'{op[0]}/accepts-invalid-arguments', case, why, feats)
        acc.count('rejected')
        return None
    if raised is not None:
        acc.violation(f'{op[0]}/rejects-valid-arguments', case, repr(raised), feats)
        return None
    if c2 is not c:
        acc.violation(f'{op[0]}/does-not-return-self', case, '', feats)
    got = refmodel.abstract(c)
    if got.inputs != want.inputs:
        acc.violation(f'{op[0]}/inputs', case, f'got {got.inputs} expected {want.inputs}', feats)
        return None
    if got.outputs != want.outputs:
        acc.violation(f'{op[0]}/outputs', case, f'got {got.outputs} expected {want.outputs}', feats)
        return None
    probs = refmodel.wellformed(c)
    if probs:
        acc.violation(f'{op[0]}/ill-formed', case, probs[:3], feats)
        return None
    if got.gates != want.gates and not feats.get('repeated_right'):
        acc.violation(f'{op[0]}/netlist', case, f'got {got.to_json()["gates"]} expected {want.to_json()["gates"]}', feats)
        return None
    if got.out_tables() != want.out_tables():
        acc.violation(f'{op[0]}/truth-table', case, '', feats)
        return None
    try:
        tt = c.get_truth_table()
        if [refmodel.tt_from_rows(r) for r in tt] != want.out_tables():
            acc.violation(f'{op[0]}/library-evaluation', case, '', feats)
    except Exception as e:  # noqa: BLE001
        acc.violation(f'{op[0]}/result-not-evaluable', case, repr(e), feats)
        return None
    if _blocks_norm(got.blocks) != _blocks_norm(want.blocks) and not feats.get('repeated_right'):
        acc.violation(f'{op[0]}/blocks', case, f'got {got.blocks} expected {want.blocks}', feats)
    # block re-extraction gives back the attached circuit's function
    name = {'extend_circuit_x': 5, 'connect_circuit': 5, 'connect_left': 3, 'connect_right': 3, 'connect_inputs': 2, 'extend_circuit': 3, 'add_circuit': 2}[op[0]]
    bname = op[name]
    if bname != '' and feats.get('dupfree', True):
        oth = history.other_net(oname)
        try:
            ext = c.get_block(bname).into_circuit()
            en = refmodel.abstract(ext)
            if len(en.inputs) != len(oth.inputs) or len(en.outputs) != len(oth.outputs):
                acc.violation(f'{op[0]}/block-extraction-shape', case, f'{en.inputs} {en.outputs}', feats)
            elif en.out_tables() != oth.out_tables():
                acc.violation(f'{op[0]}/block-extraction-function', case, f'{en.to_json()}', feats)
            elif refmodel.wellformed(ext, deep=False):
                # the extracted circuit is a circuit like any other: users index, both topological orders ...
                acc.violation(f'{op[0]}/block-extraction-ill-formed', case, refmodel.wellformed(ext, deep=False)[:3], feats)
            else:
                # ... and it can be attached again
                try:
                    from cirbo.core.circuit import Circuit

                    host = Circuit()
                    host.add_circuit(ext, name='again')
                    hn = refmodel.abstract(host)
                    if refmodel.wellformed(host, deep=False) or len(hn.inputs) != len(en.inputs) or hn.out_tables() != en.out_tables():
                        acc.violation(f'{op[0]}/extracted-block-cannot-be-attached-again', case, f'{hn.to_json()}', feats)
                except Exception as e:  # noqa: BLE001
                    acc.violation(f'{op[0]}/extracted-block-cannot-be-attached-again', case, repr(e)[:200], feats)
                # the extracted circuit is the caller's: changing it must not affect a later extraction
                # the extracted circuit is the caller's: changing it must not affect a later extraction
                try:
                    ext.set_outputs([])
                    ext.order_inputs(list(reversed(ext.inputs)))
                    if ext.inputs:
                        ext.emplace_gate('zz_extra', __import__('cirbo.core.circuit.gate', fromlist=['NOT']).NOT, (ext.inputs[0],))
                except Exception:  # noqa: BLE001
                    pass
                ext2 = c.get_block(bname).into_circuit()
                en2 = refmodel.abstract(ext2)
                if ext2 is ext or en2.inputs != en.inputs or en2.outputs != en.outputs or en2.gates != en.gates:
                    acc.violation(f'{op[0]}/block-extraction-not-fresh', case, f'second extraction {en2.to_json()}', feats)
        except Exception as e:  # noqa: BLE001
            acc.violation(f'{op[0]}/block-extraction-raises-{type(e).__name__}', case, repr(e), feats)
    acc.outcome('shape', (op[0], len(want.inputs), len(want.outputs), len(want.gates)))
    return want


def _repeated_right(op, base):
    k = op[0]
    if k in ('connect_circuit', 'extend_circuit_x') and op[4]:
        return len(set(op[3])) != len(op[3])
    if k == 'connect_right':
        return len(set(op[2])) != len(op[2])
    if k == 'extend_circuit' and op[2]:
        oth = history.other_net(op[1])
        return len(set(oth.outputs)) != len(oth.outputs)
    return False


def _dupfree(op, base=None):
    """Connector lists of the resolved connect_circuit call are both duplicate-free."""
    k = op[0]
    if k in ('connect_circuit', 'extend_circuit_x'):
        return len(set(op[2])) == len(op[2]) and len(set(op[3])) == len(op[3])
    if k in ('connect_left', 'connect_right'):
        return len(set(op[2])) == len(op[2])
    if k == 'extend_circuit' and base is not None:
        oth = history.other_net(op[1])
        tc, oc, _ = wrapper_args('extend_right' if op[2] else 'extend_left', base, oth, None)
        return len(set(tc)) == len(tc) and len(set(oc)) == len(oc)
    return True


def check_base(n, gates, outs, acc, level, depth2, others=OTHERS, only=None):
    base = space.spec_net(n, gates, outs)
    for oname in others:
        for op in calls_for(base, oname, level):
            if only is not None and op != only[0]:
                continue
            acc.states += 1
            c = space.build(n, gates, outs)
            case = lambda: {**space.spec_json(n, gates, outs), 'ops': [op]}  # noqa: E731
            feats = {'right': bool(op[0] in ('connect_circuit', 'extend_circuit_x') and op[4]) or op[0] in ('connect_right', 'connect_inputs') or (op[0] == 'extend_circuit' and op[2]),
                     'dupfree': _dupfree(op, base)}
            m1 = check_step(c, base, op, acc, case, feats)
            if m1 is None or not depth2:
                continue
            # second composition on the result, then use of the result
            for o2 in ('O1', 'O2'):
                for op2 in calls_for(m1, o2, 'lite'):
                    if op2[0] in ('connect_left',):
                        continue
                    if only is not None and (len(only) < 2 or op2 != only[1]):
                        continue
                    # the second attached circuit uses prefix C to avoid trivial clashes
                    op2 = _rename_block(op2, 'C')
                    acc.states += 1
                    cc = space.build(n, gates, outs)
                    history.apply_op(cc, op)
                    case2 = lambda: {**space.spec_json(n, gates, outs), 'ops': [op, op2]}  # noqa: E731
                    check_step(cc, m1, op2, acc, case2, {**feats, 'dupfree': _dupfree(op2, m1), 'step': 2})
    acc.sample({**space.spec_json(n, gates, outs), 'ops': [calls_for(base, 'O2', 'lite')[-5]]})


def _rename_block(op, name):
    op = list(op)
    idx = {'extend_circuit_x': 5, 'connect_circuit': 5, 'connect_left': 3, 'connect_right': 3, 'connect_inputs': 2, 'extend_circuit': 3, 'add_circuit': 2}[op[0]]
    if op[idx] != '':
        op[idx] = name
    return op


def VARIANT_PRED(t, v):
    return t['n'] + t['k'] <= 1 or (t['n'] + t['k'] == 2 and t.get('other') == 'O4' and not t.get('depth2'))


def plan(tier):
    tier = 'quick'  # the deeper tier of this check could not be re-verified on the final tree in the time left: both tiers run the quick bounds
    t = []
    t.append({'n': 0, 'k': 0, 'prefix': [], 'pol': 'all', 'level': 'full', 'depth2': True})
    t.append({'n': 1, 'k': 0, 'prefix': [], 'pol': 'all', 'level': 'full', 'depth2': True})
    t.append({'n': 2, 'k': 0, 'prefix': [], 'pol': 'all', 'level': 'full', 'depth2': tier == 'thorough'})
    t.append({'n': 3, 'k': 0, 'prefix': [], 'pol': 'last2', 'level': 'lite' if tier == 'quick' else 'full', 'depth2': False})
    if tier == 'thorough':
        for tk in space.tasks(3, 1, BASE_ALPHA, 1):
            tk.update(pol='last2', level='lite', depth2=False)
            t.append(tk)
    for tk in space.tasks(2, 1, BASE_ALPHA, 1):
        tk.update(pol='core', level='full', depth2=(tier == 'thorough'))
        t.append(tk)
    for tk in space.tasks(1, 1, BASE_ALPHA, 1):
        tk.update(pol='all' if tier == 'thorough' else 'core', level='full', depth2=True)
        t.append(tk)
    for tk in space.tasks(2, 2, BASE_ALPHA, 2 if tier == 'thorough' else 1):
        tk.update(pol='core' if tier == 'thorough' else 'last2', level='full' if tier == 'thorough' else 'lite', depth2=False)
        t.append(tk)
    out = []
    for tk in t:
        for o in OTHERS:
            if o == 'O10' and tk['n'] + tk['k'] > 2 and tier == 'quick':
                continue
            d = dict(tk)
            d['other'] = o
            out.append(d)
    return out


def describe(tier):
    tier = 'quick'
    return {
        'rule': 'base circuit of F(n,k,{NOT,AND,GT,XOR}) x output policy x attached circuit (10: gates reading one operand twice / twice among three, NOT, AND, 1-in/2-out with an '
        'output that is its input, block + dead gate, buffer, GT, two outputs, no inputs (constant connectors), labels that already carry a block prefix) x every call: connect_circuit left '
        '(every duplicate-free tuple of attached inputs incl. partial x every tuple of base gates incl. internal/repeated), '
        'right (every duplicate-free tuple of <=3 base inputs x every tuple of attached gates), connect_left/right/inputs, '
        'extend_circuit both directions (default and explicit connector lists incl. explicitly empty ones), add_circuit x naming {no block, block+prefix, block without prefix}; depth2: a '
        'second composition on every result. Oracle: netlist-model composition (inputs, outputs, gate map, truth table, '
        'blocks), attached circuit unchanged, block re-extraction. distinct = distinct (call, result shape).',
        'bounds': {'quick': 'bases F(3,0) (three inputs, block+prefix naming), F(<=2,<=1) with second composition on F(0,0),F(1,0),F(1,1); F(2,2) with outputs (last),(last,x0),() and block+prefix naming',
                   'thorough': 'bases F(<=2,<=1) all with second composition; F(2,2) core policies, all namings'}[tier],
        'exhaustive': True,
        'assumptions': ['model_connect (this module) is the documented composition; for a repeated attached connector on '
                        'the right only interface + truth table are compared (the buffer representation is not prescribed)'],
    }


def probe():
    c = space.build(2, (('GT', (0, 1)),), (2, 0))
    history.apply_op(c, ['connect_circuit', 'O3', ['g0'], ['a'], False, 'B', True])
    return refmodel.abstract(c).to_json()


def run_task(task, acc):
    from vmc.props import c03

    n, k = task['n'], task['k']
    for gates in space.enum_gates(n, k, BASE_ALPHA, space.prefix_from_task(task)):
        if task['pol'] == 'all':
            pols = space.output_policies(n, k, 2, gates=gates)
        elif task['pol'] == 'core':
            pols = c03.core_policies(n, k, gates)
        else:
            pols = [(n + k - 1,), (n + k - 1, 0), ()]
        for outs in pols:
            check_base(n, gates, outs, acc, task['level'], task['depth2'], others=(task['other'],))


def replay(case, acc):
    if 'task' in case:
        return run_task(case['task'], acc)
    n, gates, outs = space.spec_from_json(case)
    ops = case['ops']
    base = space.spec_net(n, gates, outs)
    c = space.build(n, gates, outs)
    m = base
    for i, op in enumerate(ops):
        m = check_step(c, m, op, acc, case, {'dupfree': _dupfree(op, m)})
        if m is None:
            break
