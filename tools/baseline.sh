#!/bin/sh
# run the repository's pinned test suite (guard off) and summarise
cd /repo && /venv/bin/python -m pytest -q -p no:cacheprovider --timeout=900 --continue-on-collection-errors -x -q 2>&1 | tail -15
