"""Command line: python -m vmc.cli check C01 [--tier quick|thorough] | replay <path>."""

import argparse
import os
import sys

from vmc import boot


def main():
    boot.ensure_env('vmc.cli')
    boot.install()
    from vmc import engine

    ap = argparse.ArgumentParser(prog='vmc')
    sub = ap.add_subparsers(dest='cmd', required=True)
    c = sub.add_parser('check')
    c.add_argument('pid')
    c.add_argument('--tier', default=os.environ.get('VERIF_TIER', 'quick'))
    c.add_argument('--jobs', type=int, default=None)
    c.add_argument('--task', type=int, default=None)
    r = sub.add_parser('replay')
    r.add_argument('path')
    a = ap.parse_args()
    if a.cmd == 'check':
        tier = a.tier if a.tier in ('quick', 'thorough') else 'quick'
        sys.exit(engine.run_check(a.pid.upper(), tier, a.jobs, a.task))
    if a.cmd == 'replay':
        sys.exit(engine.run_replay(a.path))


if __name__ == '__main__':
    main()
