"""C17 - shipped circuit databases are correct and look-ups return the requested function.

All 2 x 349,724 stored entries are decoded and evaluated by the reference model; every
fully defined table with 2-3 inputs and 1-2 (thorough: 3) outputs is looked up; every
{0,1,*} table for (n,m) in {(2,1),(2,2),(3,1)} is looked up through the model API.
"""

import itertools

from vmc import refmodel
from vmc.engine import guarded

ID = 'C17'
BASIS = {
    'aig': {'INPUT', 'NOT', 'AND', 'OR', 'NAND', 'NOR', 'GT', 'LT', 'GEQ', 'LEQ'},
}
BASIS['xaig'] = BASIS['aig'] | {'XOR', 'NXOR'}
NCHUNK = 48
_DB = {}


def db(name):
    if name not in _DB:
        from cirbo.circuits_db.data_utils import DEFAULT_AIG_DB_PATH, DEFAULT_XAIG_DB_PATH
        from cirbo.circuits_db.db import CircuitsDatabase

        d = CircuitsDatabase(DEFAULT_AIG_DB_PATH if name == 'aig' else DEFAULT_XAIG_DB_PATH)
        d.open()
        _DB[name] = d
    return _DB[name]


_DB2 = {}


def db2(name):
    """a second database object per worker whose request order is: explicit exclusion list first, plain second"""
    if name not in _DB2:
        from cirbo.circuits_db.data_utils import DEFAULT_AIG_DB_PATH, DEFAULT_XAIG_DB_PATH
        from cirbo.circuits_db.db import CircuitsDatabase

        d = CircuitsDatabase(DEFAULT_AIG_DB_PATH if name == 'aig' else DEFAULT_XAIG_DB_PATH)
        d.open()
        _DB2[name] = d
    return _DB2[name]


def manydc_patterns(name, limit):
    """three-input first outputs '*b1..b7' whose completion with a leading 1 is stored with strictly fewer gates
    than the one with a leading 0 (largest gaps first)"""
    d = db(name)
    out = []
    for bits in itertools.product('01', repeat=7):
        rest = ''.join(bits)
        sizes = []
        for lead in '01':
            ent = d.get_by_raw_truth_table([[ch == '1' for ch in lead + rest]])
            sizes.append(None if ent is None else ent.gates_number())
        if None not in sizes and sizes[1] < sizes[0]:
            out.append((sizes[0] - sizes[1], rest, min(sizes)))
    out.sort(key=lambda x: (-x[0], x[1]))
    return out[:limit]


def check_manydc(name, rest, bound, acc):
    """17 don't-cares (two outputs entirely free, one free cell in the first): far more than 2^16 completions.  The
    answer must agree with the defined cells and be no larger than the stored circuit of the completion in which
    the free outputs copy the first one."""
    from cirbo.core.logic import DontCare

    d = db(name)
    tabs = ('*' + rest, '*' * 8, '*' * 8)
    ttm = [[DontCare if ch == '*' else ch == '1' for ch in t] for t in tabs]
    case = {'db': name, 'n': 3, 'model': list(tabs)}
    acc.states += 1
    acc.traces += 1
    acc.transitions += 1
    ok, c = guarded(acc, 'model-lookup', case, d.get_by_raw_truth_table_model, ttm)
    if not ok:
        return
    if c is None:
        acc.violation('model-lookup/none-although-a-completion-is-stored', case, '')
        return
    net = refmodel.abstract(c)
    if len(net.inputs) != 3 or len(net.outputs) != 3:
        acc.violation('model-lookup/shape', case, '')
        return
    got = refmodel.tt_str(net.out_tables()[0], 3)
    if any(ch != '*' and ch != g for ch, g in zip(tabs[0], got)):
        acc.violation('model-lookup/disagrees-with-defined-entry', case, got)
        return
    if c.gates_number() > bound:
        acc.violation('model-lookup/not-minimal', case, f'returned {c.gates_number()} gates; the completion whose free outputs copy the first one is stored with {bound}')
    acc.outcome('model', (name, 3, 3, 'manydc', c.gates_number()))


def plan(tier):
    t = []
    for name in ('aig', 'xaig'):
        for i in range(NCHUNK):
            t.append({'kind': 'entries', 'db': name, 'chunk': i})
        t.append({'kind': 'lookup', 'db': name, 'n': 2, 'm': 1, 'first': None})
        t.append({'kind': 'lookup', 'db': name, 'n': 2, 'm': 2, 'first': None})
        for f in range(16):
            t.append({'kind': 'lookup', 'db': name, 'n': 2, 'm': 3, 'first': f})
        for f in range(16):
            t.append({'kind': 'lookup', 'db': name, 'n': 2, 'm': 4, 'first': f})
        if tier == 'thorough':
            for f in range(16):
                t.append({'kind': 'lookup', 'db': name, 'n': 2, 'm': 5, 'first': f})
        t.append({'kind': 'lookup', 'db': name, 'n': 3, 'm': 1, 'first': None})
        for f in range(0, 256, 8):
            t.append({'kind': 'lookup', 'db': name, 'n': 3, 'm': 2, 'first': [f, f + 8]})
        if tier == 'thorough':
            for f in range(256):
                t.append({'kind': 'lookup', 'db': name, 'n': 3, 'm': 3, 'first': [f, f + 1]})
        t.append({'kind': 'model', 'db': name, 'n': 2, 'm': 1, 'first': None})
        for f in range(81):
            t.append({'kind': 'model', 'db': name, 'n': 2, 'm': 2, 'first': f})
        for f in range(27):
            t.append({'kind': 'model', 'db': name, 'n': 3, 'm': 1, 'first': f})
        t.append({'kind': 'misc', 'db': name})
        for i in range(4 if tier == 'quick' else 24):
            t.append({'kind': 'manydc', 'db': name, 'i': i})
    return t


def describe(tier):
    return {
        'rule': 'entries: every stored (key, bytes) pair of both shipped databases is decoded; key grammar, well-formedness, '
        'gate basis and reference truth table == key. lookup: every fully defined table (all rows, incl. equal and '
        'complementary outputs) for the listed (n,m), rows given as lists and (all n=2 tables, every 16th n=3 table) as tuples. model: every {0,1,*} table for (2,1),(2,2),(3,1): result agrees on '
        'defined entries and is no larger than the stored circuit of any completion. distinct = distinct '
        '(db, n, m, gate count) outcomes.',
        'bounds': {
            'quick': 'all 699,448 entries; 4 (thorough 24) requests with 17 don\'t-cares (more than 2^16 completions); lookups (2,1..4),(3,1),(3,2); identical request repeated after editing the returned circuit for (2,1),(2,2),(3,1) and the (2,1) models; models (2,1),(2,2),(3,1)',
            'thorough': '+ lookups (2,5), (3,3): 16.8M tables per database',
        }[tier],
        'exhaustive': True,
        'assumptions': ['vmc.refmodel evaluator; own normalisation (negate rows starting with 1, sort, deduplicate)'],
    }


def probe():
    c = db('aig').get_by_raw_truth_table([[True, False, False, True], [False, True, True, False]])
    return refmodel.abstract(c).to_json()


def check_entries(name, chunk, acc):
    from cirbo.circuits_db.circuits_encoding import decode_circuit

    d = db(name)
    keys = sorted(d._dict)
    lo = chunk * len(keys) // NCHUNK
    hi = (chunk + 1) * len(keys) // NCHUNK
    basis = BASIS[name]
    for key in keys[lo:hi]:
        acc.states += 1
        acc.traces += 1
        acc.transitions += 2
        case = {'db': name, 'key': key}
        parts = key.split('_')
        ln = len(parts[0])
        if ln not in (4, 8) or any(len(p) != ln or set(p) - {'0', '1'} for p in parts):
            acc.violation('entry/key-grammar', case, '')
            continue
        if any(p[0] == '1' for p in parts) or parts != sorted(set(parts)):
            acc.violation('entry/key-not-normalised', case, '')
        ok, c = guarded(acc, 'entry/get_by_label', case, d.get_by_label, key)
        if not ok:
            continue
        if c is None:
            acc.violation('entry/missing', case, '')
            continue
        probs = refmodel.wellformed(c)
        if probs:
            acc.violation('entry/ill-formed', case, probs[:2])
            continue
        net = refmodel.abstract(c)
        n = len(net.inputs)
        if (1 << n) != ln or len(net.outputs) != len(parts):
            acc.violation('entry/shape', case, f'n={n} outputs={len(net.outputs)}')
            continue
        types = {t for t, _ in net.gates.values()}
        if not types <= basis:
            acc.violation('entry/gate-outside-basis', case, sorted(types - basis))
        got = '_'.join(refmodel.tt_str(v, n) for v in net.out_tables())
        if got != key:
            acc.violation('entry/truth-table-is-not-key', case, got)
        # the library's own evaluation of the decoded circuit agrees (ties to C01)
        if chunk == 0:
            tt = c.get_truth_table()
            if '_'.join(''.join('1' if b else '0' for b in r) for r in tt) != key:
                acc.violation('entry/library-evaluation-differs', case, '')
        acc.outcome('entry', (name, n, len(parts), c.gates_number()))
    acc.sample({'db': name, 'key': keys[lo]})


def my_key(rows):
    """Independent normalisation: negate rows whose first entry is 1, sort, deduplicate."""
    norm = []
    for r in rows:
        s = ''.join('1' if b else '0' for b in r)
        if s[0] == '1':
            s = ''.join('0' if ch == '1' else '1' for ch in s)
        norm.append(s)
    return '_'.join(sorted(set(norm)))


def _rows(v, rows):
    return [bool((v >> j) & 1) for j in range(rows)]


def check_lookup_one(name, n, vs, acc, as_tuples=False, requery=False):
    d = db(name)
    rows = 1 << n
    tt = [_rows(v, rows) for v in vs]
    if as_tuples:  # RawTruthTable = Sequence[Sequence[bool]]: tuples are as good as lists
        tt = tuple(tuple(r) for r in tt)
    acc.states += 1
    acc.traces += 1
    acc.transitions += 1
    case = lambda: {'db': name, 'n': n, 'tables': [refmodel.tt_str(v, n) for v in vs], 'rows_as_tuples': as_tuples}  # noqa: E731
    ok, c = guarded(acc, 'lookup', case, d.get_by_raw_truth_table, tt)
    if not ok:
        return
    if c is None:
        if my_key(tt) in d._dict:
            acc.violation('lookup/none-although-stored', case, my_key(tt))
        acc.count('lookup_none')
        return
    net = refmodel.abstract(c)
    if len(net.inputs) != n or len(net.outputs) != len(vs):
        acc.violation('lookup/shape', case, f'{len(net.inputs)} inputs, {len(net.outputs)} outputs')
        return
    try:
        got = net.out_tables()
    except Exception as e:  # noqa: BLE001
        acc.violation('lookup/not-evaluable', case, repr(e))
        return
    if got != list(vs):
        acc.violation('lookup/wrong-function', case, f'got {[refmodel.tt_str(v, n) for v in got]}')
        return
    if refmodel.wellformed(c, deep=False):
        acc.violation('lookup/ill-formed', case, '')
    types = {t for t, _ in net.gates.values()}
    if not types <= BASIS[name]:
        acc.violation('lookup/gate-outside-basis', case, sorted(types - BASIS[name]))
    acc.outcome('lookup', (name, n, len(vs), c.gates_number()))
    if requery:
        # the caller owns the circuit it was given: edit it, ask the same question again
        from cirbo.core.circuit import gate as G

        acc.transitions += 1
        try:
            c.emplace_gate('zz_edit', G.NOT, (net.outputs[0],))
            c.set_outputs(['zz_edit'] * len(net.outputs))
            c2 = d.get_by_raw_truth_table(tt)
            net2 = refmodel.abstract(c2)
            got2 = net2.out_tables()
        except Exception as e:  # noqa: BLE001
            acc.violation(f'lookup/second-identical-request-raises-{type(e).__name__}', case, repr(e)[:200])
            return
        if c2 is c or got2 != list(vs) or len(net2.inputs) != n:
            acc.violation('lookup/second-identical-request-returns-the-edited-circuit', case, f'got {[refmodel.tt_str(v, n) for v in got2]}')


def check_lookup(task, acc):
    name, n, m, first = task['db'], task['n'], task['m'], task['first']
    total = 1 << (1 << n)
    if first is None:
        firsts = range(total)
    elif isinstance(first, list):
        firsts = range(first[0], first[1])
    else:
        firsts = [first]
    for f in firsts:
        for rest in itertools.product(range(total), repeat=m - 1):
            check_lookup_one(name, n, (f,) + rest, acc, requery=(n == 2 and m <= 2) or m == 1)
            if m >= 2 and (n == 2 or (f + sum(rest)) % 16 == 0):
                check_lookup_one(name, n, (f,) + rest, acc, as_tuples=True)
    acc.sample({'db': name, 'n': n, 'tables': [refmodel.tt_str(v, n) for v in ((firsts[0],) + (total - 1,) * (m - 1))]})


def check_model_one(name, n, tabs, acc):
    """tabs: tuple of strings over '01*' (one per output)."""
    from cirbo.core.logic import DontCare

    d = db(name)
    rows = 1 << n
    ttm = [[DontCare if ch == '*' else ch == '1' for ch in t] for t in tabs]
    acc.states += 1
    acc.traces += 1
    acc.transitions += 1
    case = lambda: {'db': name, 'n': n, 'model': list(tabs)}  # noqa: E731
    ok, c = guarded(acc, 'model-lookup', case, d.get_by_raw_truth_table_model, ttm)
    if not ok:
        return
    # independent minimum over completions, straight from the stored entries
    stars = [(i, j) for i, t in enumerate(tabs) for j, ch in enumerate(t) if ch == '*']
    best = None
    for sub in itertools.product('01', repeat=len(stars)):
        cur = [list(t) for t in tabs]
        for (i, j), ch in zip(stars, sub):
            cur[i][j] = ch
        key = my_key([[ch == '1' for ch in r] for r in cur])
        ent = d.get_by_label(key)
        if ent is not None:
            g = ent.gates_number()
            if best is None or g < best:
                best = g
    if c is None:
        if best is not None:
            acc.violation('model-lookup/none-although-a-completion-is-stored', case, '')
        return
    net = refmodel.abstract(c)
    if len(net.inputs) != n or len(net.outputs) != len(tabs):
        acc.violation('model-lookup/shape', case, '')
        return
    try:
        got = net.out_tables()
    except Exception as e:  # noqa: BLE001
        acc.violation('model-lookup/not-evaluable', case, repr(e)[:200])
        return
    for v, t in zip(got, tabs):
        s = refmodel.tt_str(v, n)
        if any(ch != '*' and ch != sc for ch, sc in zip(t, s)):
            acc.violation('model-lookup/disagrees-with-defined-entry', case, f'got {[refmodel.tt_str(x, n) for x in got]}')
            return
    if best is None or c.gates_number() > best:
        acc.violation('model-lookup/not-minimal', case, f'returned {c.gates_number()} gates, best completion has {best}')
    acc.outcome('model', (name, n, len(tabs), c.gates_number()))
    if n == 2 and len(tabs) == 1:
        from cirbo.core.circuit import gate as G

        acc.transitions += 1
        try:
            c.emplace_gate('zz_edit', G.NOT, (net.outputs[0],))
            c.set_outputs(['zz_edit'] * len(net.outputs))
            c2 = d.get_by_raw_truth_table_model(ttm)
            got2 = refmodel.abstract(c2).out_tables()
        except Exception as e:  # noqa: BLE001
            acc.violation(f'model-lookup/second-identical-request-raises-{type(e).__name__}', case, repr(e)[:200])
            return
        for v, t in zip(got2, tabs):
            s2 = refmodel.tt_str(v, n)
            if c2 is c or any(ch != '*' and ch != sc for ch, sc in zip(t, s2)):
                acc.violation('model-lookup/second-identical-request-returns-the-edited-circuit', case, '')
                return
    if n == 2 and len(tabs) == 1:
        # an explicit exclusion list changes the size measure: [] / () mean "count every gate"
        for excl in ([], ()):
            acc.transitions += 1
            ok, c2 = guarded(acc, 'model-lookup(exclusion_list)', case, d.get_by_raw_truth_table_model, [list(r) for r in ttm], excl)
            if not ok or c2 is None:
                continue
            best2 = None
            for sub in itertools.product('01', repeat=len(stars)):
                cur = [list(t) for t in tabs]
                for (i, j), ch in zip(stars, sub):
                    cur[i][j] = ch
                cc = d.get_by_raw_truth_table([[ch == '1' for ch in r] for r in cur])
                if cc is not None:
                    g = cc.gates_number(excl)
                    best2 = g if best2 is None or g < best2 else best2
            if best2 is not None and c2.gates_number(excl) > best2:
                acc.violation('model-lookup/not-minimal-under-explicit-exclusion-list', case, f'returned {c2.gates_number(excl)}, best {best2}, exclusion_list={excl!r}')
        # request order must not matter: the plain request again, after the ones with an explicit exclusion list ...
        acc.transitions += 2
        ok, c3 = guarded(acc, 'model-lookup', case, d.get_by_raw_truth_table_model, [list(r) for r in ttm])
        if ok and c3 is not None and best is not None and c3.gates_number() > best:
            acc.violation('model-lookup/not-minimal-after-a-request-with-an-explicit-exclusion-list', case, f'returned {c3.gates_number()} gates, best completion has {best}')
        # ... and on a database object that saw the explicit-list request FIRST
        d2 = db2(name)
        try:
            d2.get_by_raw_truth_table_model([list(r) for r in ttm], [])
            c4 = d2.get_by_raw_truth_table_model([list(r) for r in ttm])
        except Exception as e:  # noqa: BLE001
            acc.violation(f'model-lookup/raises-{type(e).__name__}', case, repr(e)[:200])
            return
        if c4 is not None and best is not None and c4.gates_number() > best:
            acc.violation('model-lookup/not-minimal-after-a-request-with-an-explicit-exclusion-list', case, f'fresh database: explicit list first, then plain: {c4.gates_number()} gates, best {best}')


def check_model(task, acc):
    name, n, m, first = task['db'], task['n'], task['m'], task['first']
    rows = 1 << n
    if m == 1 and n == 2:
        for t in itertools.product('01*', repeat=rows):
            check_model_one(name, n, (''.join(t),), acc)
    elif m == 2:
        f = ''.join(list(itertools.product('01*', repeat=rows))[first])
        for t in itertools.product('01*', repeat=rows):
            check_model_one(name, n, (f, ''.join(t)), acc)
    else:
        pre = ''.join(list(itertools.product('01*', repeat=3))[first])
        for t in itertools.product('01*', repeat=rows - 3):
            check_model_one(name, n, (pre + ''.join(t),), acc)
    acc.sample({'db': name, 'n': n, 'model': ['0*1*' if n == 2 else '0*1*01**']})


def check_misc(name, acc):
    """Label-level API on the shipped file: presence, absence, counts."""
    d = db(name)
    acc.states += 1
    acc.traces += 1
    acc.transitions += 3
    if len(d._dict) != 349724:
        acc.violation('db/entry-count', {'db': name}, len(d._dict))
    if d.get_by_label('no-such-label') is not None:
        acc.violation('db/unknown-label-returns-circuit', {'db': name}, '')
    exp = {(2, 1): 8, (2, 2): 28, (2, 3): 56, (3, 1): 128, (3, 2): 8128, (3, 3): 341376}
    cnt = {}
    for k in d._dict:
        p = k.split('_')
        key = ({4: 2, 8: 3}.get(len(p[0])), len(p))
        cnt[key] = cnt.get(key, 0) + 1
    if cnt != exp:
        acc.violation('db/incomplete-family', {'db': name}, str(cnt))


def run_task(task, acc):
    kind = task['kind']
    if kind == 'entries':
        return check_entries(task['db'], task['chunk'], acc)
    if kind == 'lookup':
        return check_lookup(task, acc)
    if kind == 'manydc':
        pats = manydc_patterns(task['db'], task['i'] + 1)
        if task['i'] < len(pats):
            _, rest, bound = pats[task['i']]
            check_manydc(task['db'], rest, bound, acc)
        return
    if kind == 'model':
        return check_model(task, acc)
    return check_misc(task['db'], acc)


def replay(case, acc):
    if 'task' in case:
        return run_task(case['task'], acc)
    if 'tables' in case:
        vs = tuple(refmodel.tt_from_rows([ch == '1' for ch in t]) for t in case['tables'])
        return check_lookup_one(case['db'], case['n'], vs, acc, case.get('rows_as_tuples', False))
    if 'model' in case and len(case['model']) == 3 and case['model'][1] == '*' * 8:
        rest = case['model'][0][1:]
        d = db(case['db'])
        bound = min(d.get_by_raw_truth_table([[ch == '1' for ch in lead + rest]]).gates_number() for lead in '01')
        return check_manydc(case['db'], rest, bound, acc)
    if 'model' in case:
        return check_model_one(case['db'], case['n'], tuple(case['model']), acc)
    if 'key' in case:
        d = db(case['db'])
        keys = sorted(d._dict)
        return check_entries(case['db'], keys.index(case['key']) * NCHUNK // len(keys), acc)
    return check_misc(case['db'], acc)
