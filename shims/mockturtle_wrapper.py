"""Environment shim of cirbo's C++ extension `mockturtle_wrapper` (absent from this image).

enumerate_cuts(bench_text, cut_size, cut_limit, fanout_size) -> {node: [[leaf, ...], ...]}

Textbook bottom-up k-feasible cut enumeration as mockturtle does it: the cuts of a node
are the pairwise (n-wise) merges of one cut per operand, kept if they have at most
cut_size leaves and are not dominated, ordered by size (a new cut goes in front of equal
sized ones), truncated to cut_limit-1, with the trivial cut {node} last.  Leaves are
listed in node-creation order.  The one expectation recorded in
tests/extensions/mockturtle_wrapper/test_cuts.py is reproduced by vmc.selftest.

The returned family is an *environment answer*: ENV.policy (installed by the explorer)
selects among admissible variations (see vmc.props.c04 / DESIGN.md 3.1).
"""

import itertools
import re


class _Env:
    def __init__(self):
        self.reset()

    def reset(self):
        # policy knobs (all defaults = mockturtle-like behaviour)
        self.reverse_cuts = False  # reverse the per-node order of non-trivial cuts
        self.reverse_leaves = False  # list leaves in descending order
        self.keep_dominated = False  # do not prune dominated cuts
        self.drop = None  # (node, index) of one non-trivial cut to drop (if admissible)
        self.trivial_first = False  # trivial cut first instead of last
        self.calls = 0
        self.last = None


ENV = _Env()

_LINE = re.compile(r'^\s*([^=\s]+)\s*=\s*([A-Za-z_0-9]+)\s*\((.*)\)\s*$')


def parse(text):
    inputs, outputs, gates = [], [], {}
    order = []
    for raw in text.splitlines():
        line = raw.strip()
        if not line or line.startswith('#'):
            continue
        up = line.upper()
        if up.startswith('INPUT(') and '=' not in line:
            lab = line[line.index('(') + 1 : line.rindex(')')].strip()
            inputs.append(lab)
            order.append(lab)
            continue
        if up.startswith('OUTPUT(') and '=' not in line:
            outputs.append(line[line.index('(') + 1 : line.rindex(')')].strip())
            continue
        m = _LINE.match(line)
        if not m:
            raise ValueError(f'cannot parse bench line: {raw!r}')
        lab, op, args = m.group(1), m.group(2).upper(), m.group(3)
        ops = [a.strip() for a in args.split(',') if a.strip()]
        gates[lab] = (op, ops)
        order.append(lab)
    return inputs, outputs, gates, order


def _topo(inputs, gates, order):
    done = list(inputs)
    seen = set(inputs)
    pending = [k for k in order if k not in seen]
    while pending:
        rest = []
        for k in pending:
            if all(o in seen for o in gates[k][1]):
                seen.add(k)
                done.append(k)
            else:
                rest.append(k)
        if len(rest) == len(pending):
            raise ValueError('cyclic bench text')
        pending = rest
    return done


def _enumerate(inputs, gates, order, cut_size, cut_limit, env):
    topo = _topo(inputs, gates, order)
    idx = {k: i for i, k in enumerate(topo)}
    cuts = {}
    for k in topo:
        if k in inputs or k not in gates or not gates[k][1]:
            cuts[k] = [(k,)]
            continue
        ops = list(dict.fromkeys(gates[k][1]))
        res = []  # list of frozensets, ordered
        for combo in itertools.product(*[cuts[o] for o in ops]):
            leaves = frozenset().union(*[frozenset(c) for c in combo])
            if len(leaves) > cut_size:
                continue
            if leaves in res:
                continue
            if not env.keep_dominated:
                if any(r <= leaves for r in res):
                    continue
                res = [r for r in res if not (leaves <= r)]
            # insert in front of cuts of the same size (mockturtle's ordering)
            pos = 0
            while pos < len(res) and len(res[pos]) < len(leaves):
                pos += 1
            res.insert(pos, leaves)
        res = res[: max(cut_limit - 1, 0)]
        out = [tuple(sorted(r, key=lambda x: idx[x])) for r in res]
        cuts[k] = out + [(k,)]
    return topo, cuts


def admissible(inputs, gates, family):
    """The two facts _get_subcircuits relies on: every listed cut of v separates v from
    the inputs (every path from v down to an input meets a leaf), and the family is closed:
    an operand of v that is not a leaf of v's cut c has a listed cut contained in c."""
    for v, cs in family.items():
        for c in cs:
            cset = set(c)
            if cset == {v}:
                continue
            if v in inputs:
                return False
            # separation
            stack = list(gates[v][1])
            seen = set()
            while stack:
                x = stack.pop()
                if x in cset or x in seen:
                    continue
                seen.add(x)
                if x in inputs or x not in gates or not gates[x][1]:
                    return False
                stack.extend(gates[x][1])
            for o in gates[v][1]:
                if o in cset:
                    continue
                if not any(set(oc) <= cset and set(oc) != {o} for oc in family.get(o, [])):
                    return False
    return True


def enumerate_cuts(bench_text, cut_size, cut_limit, fanout_size):
    env = ENV
    env.calls += 1
    inputs, outputs, gates, order = parse(bench_text)
    topo, cuts = _enumerate(inputs, gates, order, cut_size, cut_limit, env)
    fam = {}
    for k in topo:
        cs = [list(c) for c in cuts[k]]
        triv, non = cs[-1], cs[:-1]
        if env.reverse_cuts:
            non = non[::-1]
        if env.reverse_leaves:
            non = [c[::-1] for c in non]
        fam[k] = ([triv] + non) if env.trivial_first else (non + [triv])
    if env.drop is not None:
        node, i = env.drop
        if node in fam and 0 <= i < len(fam[node]) - 1:
            trial = {k: [c for j, c in enumerate(v) if not (k == node and j == i)] for k, v in fam.items()}
            if admissible(set(inputs), gates, trial):
                fam = trial
    env.last = fam
    return fam


__version__ = 'vmc-shim'
