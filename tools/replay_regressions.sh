#!/bin/sh
# replay the first failing case of every repaired defect; exit 1 if any reproduces
cd "$(dirname "$0")/.." || exit 1
rc=0
for f in regressions/*.json; do
  out=$(./check --replay "$f" 2>&1)
  if echo "$out" | grep -q '^VIOLATION'; then echo "REGRESSION: $f"; echo "$out" | head -3; rc=1; else echo "ok $f"; fi
done
exit $rc
