"""C01 - evaluation equals the denotational semantics of the gate network.

Alphabet: F(n,k,FULL) circuits built through the public API; bound: n+k small (see
plan); oracle: vmc.refmodel (gate table + bit-parallel evaluator).
"""

import itertools

from vmc import refmodel, space
from vmc.engine import guarded

ID = 'C01'

ALPHAS = {
    'FULL': space.FULL,
    'FULL_NO3': space.FULL_NO3,
    'S4': space.S4 + space.U,
    'REQ': space.alphabet('AND', 'XOR', 'GT', 'NOT'),
}


def plan(tier):
    t = [{'kind': 'ops'}, {'kind': 'tables'}, {'kind': 'wideops'}]
    for n in (1, 2, 3, 4):
        for window in (None, 4, 3, 2):
            t.append({'kind': 'prefix', 'n': n, 'window': window, 'Ks': list(range(2, 15 if window is None else 25))})
    for pat in space.DEEP_PATTERNS:
        for L in space.DEEP_LENGTHS[tier]:
            for st in ('fwd', 'rev'):
                t.append({'kind': 'deep', 'pattern': pat, 'L': L, 'storage': st})
    fams = [(0, 1, 'FULL', 0), (1, 1, 'FULL', 0), (1, 2, 'FULL', 1), (2, 1, 'FULL', 1),
            (2, 2, 'FULL', 1), (3, 1, 'FULL', 1), (2, 1, 'S4', 1), (0, 2, 'FULL', 1)]
    if tier == 'thorough':
        fams += [(3, 2, 'FULL', 1), (2, 3, 'FULL_NO3', 2), (1, 3, 'FULL', 2), (3, 1, 'S4', 1)]
    for n, k, a, split in fams:
        for tk in space.tasks(n, k, ALPHAS[a], split):
            tk.update(kind='circ', alpha=a)
            t.append(tk)
    for n, k, a in ((2, 2, 'REQ'), (1, 2, 'FULL'), (2, 1, 'FULL'), (3, 2, 'REQ')):
        for tk in space.tasks(n, k, ALPHAS[a], 1):
            tk.update(kind='requery', alpha=a)
            t.append(tk)
    # storage permutations / relabelings
    for tk in space.tasks(2, 2, ALPHAS['FULL'], 1):
        tk.update(kind='perm', alpha='FULL')
        t.append(tk)
    if tier == 'thorough':
        for tk in space.tasks(2, 3, ALPHAS['FULL_NO3'], 2):
            tk.update(kind='perm', alpha='FULL_NO3')
            t.append(tk)
    return t


def describe(tier):
    return {
        'rule': 'prefix: densely shared circuits (gate k reads all / the last 2-4 earlier nodes, up to 14 / 24 gates, 1-4 inputs), every entry point x all assignments; requery: on F(2,2)/F(3,2) over {AND,XOR,GT,NOT}, F(1,2,FULL), F(2,1,FULL): one query with a value vector, one public mutation (input order reversed by order_inputs / set_inputs, two gate or input labels exchanged, first gate rebuilt under its label), the same query again - for five entry points, every vector; wide: every n-ary type with 255..300 operands over a stated Boolean operand alphabet; deep: chains of 1200/3000 (thorough 7000) gates in six gate-type patterns, both storage orders, every entry point x all 8 assignments; E1: every circuit of F(n,k,A) (all gate types/arities, operand tuples with '
        'repeats, order significant) x every output policy (none, all sequences of <=2 nodes '
        'incl. inputs and repeats, all sinks) x all 2^n assignments x every evaluation entry '
        'point (for n+k<=3 also on copy.deepcopy / pickle copies of the circuit object); operator tables on all Boolean operand vectors (arity<=4 for n-ary); storage '
        'permutations via bench text and relabelings; the duplicated gate tables of '
        'circuit_search/_utils/subcircuit compared entry by entry; Tseytin templates (both polarities), bench converters and fix_gate type pinning on one-gate circuits of every type, arity 2..5 and operand tuple. A case is one '
        '(circuit, output policy); distinct = distinct gate truth-table signatures.',
        'bounds': {
            'quick': 'F(0..2,<=2,FULL), F(3,1,FULL), F(2,1,4-ary)',
            'thorough': '+ F(3,2,FULL), F(2,3,FULL without 3-ary), F(1,3,FULL), F(3,1,4-ary)',
        }[tier],
        'exhaustive': True,
        'assumptions': ['vmc.refmodel gate table is the intended semantics (written from the property statement)'],
    }


def probe():
    n, gates = 2, (('GT', (0, 1)), ('XOR', (2, 0, 1)))
    c = space.build(n, gates, (3,))
    return [c.get_truth_table(), sorted((k, v) for k, v in c.get_gates_truth_table().items())]


def _is_bool(v):
    return v is True or v is False


def check_circuit(n, gates, acc, policies=None, entry_all=True):
    """All entry points on one circuit spec; returns nothing, reports into acc."""
    from cirbo.core.circuit.operators import Undefined

    k = len(gates)
    labs = space.labels(n, k)
    net = space.spec_net(n, gates)
    ref = net.tables()
    rows = 1 << n
    asg = refmodel.assignments(n)
    case0 = lambda: space.spec_json(n, gates)  # noqa: E731
    acc.states += 1
    acc.outcome('gate_tt_signature', tuple(ref[l] for l in labs))

    c = space.build(n, gates)
    # whole-circuit entry points (independent of outputs)
    ok, gtt = guarded(acc, 'get_gates_truth_table', case0, c.get_gates_truth_table)
    acc.transitions += 1
    if ok:
        for l in labs:
            col = gtt.get(l)
            exp = refmodel.tt_rows(ref[l], n)
            if col is None or list(col) != exp or not all(_is_bool(v) for v in col):
                acc.violation('get_gates_truth_table/wrong-value', case0, f'gate {l}: got {col} expected {exp}')
                break
    for j, x in enumerate(asg):
        a = {labs[i]: x[i] for i in range(n)}
        ok, full = guarded(acc, 'evaluate_full_circuit', case0, c.evaluate_full_circuit, a)
        acc.transitions += 1
        if not ok:
            break
        bad = None
        for l in labs:
            v = full.get(l, None)
            if not _is_bool(v) or v != bool((ref[l] >> j) & 1):
                bad = (l, v)
                break
        if bad or len(full) != len(labs):
            acc.violation('evaluate_full_circuit/wrong-value', case0, f'assignment {x}: gate {bad} full={full!r}')
            break
    acc.traces += 1

    pols = policies if policies is not None else space.output_policies(n, k, 2, gates=gates)
    for outs in pols:
        olabs = [labs[o] for o in outs]
        case = lambda: space.spec_json(n, gates, outs)  # noqa: E731
        if outs:
            c.set_outputs(olabs)
        else:
            c.set_outputs([])
        exp_out = [ref[l] for l in olabs]
        cone = net.reach_back(olabs)
        acc.traces += 1
        # get_truth_table
        ok, tt = guarded(acc, 'get_truth_table', case, c.get_truth_table)
        acc.transitions += 1
        if ok:
            exp_tt = [refmodel.tt_rows(v, n) for v in exp_out]
            if [list(r) for r in tt] != exp_tt or not all(_is_bool(v) for r in tt for v in r):
                acc.violation('get_truth_table/wrong-value', case, f'got {tt} expected {exp_tt}')
        for j, x in enumerate(asg):
            exp_vals = [bool((v >> j) & 1) for v in exp_out]
            ok, got = guarded(acc, 'evaluate', case, c.evaluate, list(x))
            acc.transitions += 1
            if ok and (list(got) != exp_vals or not all(_is_bool(v) for v in got)):
                acc.violation('evaluate/wrong-value', case, f'x={x} got {got} expected {exp_vals}')
            a = {labs[i]: x[i] for i in range(n)}
            a_before = dict(a)
            ok, res = guarded(acc, 'evaluate_circuit', case, c.evaluate_circuit, a)
            acc.transitions += 1
            if ok:
                _check_lazy(acc, case, 'evaluate_circuit', res, labs, ref, j, cone, Undefined, x)
            if a != a_before or res is a:
                acc.violation('evaluate_circuit/modifies-its-argument', case, f'x={x}: argument became {a!r}')
                a = dict(a_before)
            ok, res = guarded(acc, 'evaluate_circuit_outputs', case, c.evaluate_circuit_outputs, a)
            acc.transitions += 1
            if ok:
                want = {l: bool((ref[l] >> j) & 1) for l in olabs}
                if res != want or not all(_is_bool(v) for v in res.values()):
                    acc.violation('evaluate_circuit_outputs/wrong-value', case, f'x={x} got {res!r} expected {want}')
            for oi in range(len(outs)):
                ok, v = guarded(acc, 'evaluate_at', case, c.evaluate_at, list(x), oi)
                acc.transitions += 1
                if ok and (not _is_bool(v) or v != exp_vals[oi]):
                    acc.violation('evaluate_at/wrong-value', case, f'x={x} index {oi} got {v!r} expected {exp_vals[oi]}')
            if entry_all:
                # explicit single-output requests for every node (outputs= argument)
                for l in labs:
                    ok, res = guarded(acc, 'evaluate_circuit(outputs=)', case, c.evaluate_circuit, a, outputs=[l])
                    acc.transitions += 1
                    if ok:
                        _check_lazy(acc, case, 'evaluate_circuit(outputs=)', res, labs, ref, j,
                                    net.reach_back([l]), Undefined, x)
        if outs and n:
            # one assignment dict reused across calls, only the input entries rewritten
            shared = {}
            for j, x in enumerate(asg):
                for i in range(n):
                    shared[labs[i]] = x[i]
                for entry, fn in (('evaluate_circuit', c.evaluate_circuit), ('evaluate_circuit_outputs', c.evaluate_circuit_outputs),
                                  ('evaluate_full_circuit', c.evaluate_full_circuit)):
                    acc.transitions += 1
                    ok, res = guarded(acc, f'{entry}(reused-dict)', case, fn, shared)
                    if not ok:
                        continue
                    for l in olabs:
                        if res.get(l) is not bool((ref[l] >> j) & 1):
                            acc.violation(f'{entry}/wrong-value-with-reused-assignment-dict', case, f'x={x} output {l} got {res.get(l)!r}')
                            break
                    # keep only what the caller wrote: the inputs
                    if set(shared) != set(labs[:n]):
                        acc.violation(f'{entry}/modifies-its-argument', case, f'keys now {sorted(shared)}')
                        shared = {labs[i]: x[i] for i in range(n)}
        entry_all = False  # the outputs= sweep does not depend on the policy: once is enough
    if n + k <= 3:
        # the same circuit after copy.deepcopy / pickle: every entry point, last policy
        outs = pols[-1] if pols else ()
        olabs = [labs[o] for o in outs]
        for tag, cv in space.identity_variants(c):
            case = lambda: {**space.spec_json(n, gates, outs), 'object': tag}  # noqa: E731
            acc.transitions += 4
            ok, gtt = guarded(acc, f'get_gates_truth_table[{tag}]', case, cv.get_gates_truth_table)
            if ok and any(list(gtt.get(l, [])) != refmodel.tt_rows(ref[l], n) for l in labs):
                acc.violation('get_gates_truth_table/wrong-value-on-copied-object', case, tag)
            ok, tt = guarded(acc, f'get_truth_table[{tag}]', case, cv.get_truth_table)
            if ok and [list(r) for r in tt] != [refmodel.tt_rows(ref[l], n) for l in olabs]:
                acc.violation('get_truth_table/wrong-value-on-copied-object', case, tag)
            for j, x in enumerate(asg):
                a = {labs[i]: x[i] for i in range(n)}
                ok, full = guarded(acc, f'evaluate_full_circuit[{tag}]', case, cv.evaluate_full_circuit, a)
                if ok and any(full.get(l) is not bool((ref[l] >> j) & 1) for l in labs):
                    acc.violation('evaluate_full_circuit/wrong-value-on-copied-object', case, tag)
                    break
                ok, res = guarded(acc, f'evaluate_circuit[{tag}]', case, cv.evaluate_circuit, a)
                if ok and any(res.get(l) is not bool((ref[l] >> j) & 1) for l in olabs):
                    acc.violation('evaluate_circuit/wrong-value-on-copied-object', case, tag)
                    break
                for oi in range(len(outs)):
                    ok, v = guarded(acc, f'evaluate_at[{tag}]', case, cv.evaluate_at, list(x), oi)
                    if ok and v is not bool((ref[olabs[oi]] >> j) & 1):
                        acc.violation('evaluate_at/wrong-value-on-copied-object', case, tag)
    acc.sample(space.spec_json(n, gates, pols[-1] if pols else ()))


def _check_lazy(acc, case, site, res, labs, ref, j, cone, Undefined, x):
    if set(res) != set(labs):
        acc.violation(f'{site}/wrong-keys', case, f'x={x} keys {sorted(res)}')
        return
    for l in labs:
        v = res[l]
        want = bool((ref[l] >> j) & 1)
        if l in cone:
            if not _is_bool(v) or v != want:
                acc.violation(f'{site}/wrong-value', case, f'x={x} gate {l} got {v!r} expected {want}')
                return
        else:
            if not (v == Undefined and not _is_bool(v)) and not (_is_bool(v) and v == want):
                acc.violation(f'{site}/wrong-value-outside-cone', case, f'x={x} gate {l} got {v!r}')
                return


def check_ops(acc):
    from cirbo.core.circuit import gate as G

    for t in refmodel.ALL_TYPES:
        gt = getattr(G, t)
        if gt.name != t:
            acc.violation('gate/name', {'type': t}, gt.name)
        if t in refmodel.UNARY:
            arities = (1,)
        elif t in refmodel.CONST:
            arities = (0, 1, 2)
        elif t in refmodel.SYM:
            arities = (2, 3, 4)
        else:
            arities = (2,)
        sym_expected = t in refmodel.SYMMETRIC_TYPES
        if gt.is_symmetric != sym_expected:
            acc.violation('gate/is_symmetric', {'type': t}, f'{gt.is_symmetric}')
        for ar in arities:
            for vals in itertools.product((False, True), repeat=ar):
                acc.states += 1
                acc.transitions += 1
                acc.traces += 1
                case = {'type': t, 'operands': list(vals)}
                try:
                    got = gt.operator(*vals)
                except Exception as e:  # noqa: BLE001
                    acc.violation('operator/raises', case, repr(e))
                    continue
                want = refmodel.gate_bool(t, vals)
                acc.outcome('op_result', (t, ar, vals, want))
                if not _is_bool(got) or got != want:
                    acc.violation('operator/wrong-value', case, f'got {got!r} expected {want}')
    acc.sample({'type': 'GT', 'operands': [True, False]})


def check_tables(acc):
    """The separately written gate tables of other modules denote the same functions."""
    from cirbo.core.circuit import gate as G
    from cirbo.synthesis import circuit_search as cs
    from cirbo.synthesis.generation.arithmetics import _utils as au
    from cirbo.minimization import subcircuit as sc

    pairs = [(0, 0), (0, 1), (1, 0), (1, 1)]

    def tt4(tname):
        return tuple(int(refmodel.gate_bool(tname, (bool(a), bool(b)))) for a, b in pairs)

    bin_types = [t for t in refmodel.ALL_TYPES if t not in refmodel.UNARY]
    by_tt = {tt4(t): t for t in bin_types}
    assert len(by_tt) == 16
    # circuit_search._tt_to_gate_type : 16 entries
    for tt in itertools.product((0, 1), repeat=4):
        acc.states += 1
        acc.transitions += 3
        acc.traces += 1
        got = cs._tt_to_gate_type.get(tt)
        if got is None or got.name != by_tt[tt]:
            acc.violation('circuit_search._tt_to_gate_type/wrong-entry', {'tt': list(tt)}, f'{got and got.name} expected {by_tt[tt]}')
        got2 = cs._get_GateType_by_tt([bool(b) for b in tt])
        if got2.name != by_tt[tt]:
            acc.violation('circuit_search._get_GateType_by_tt/wrong-entry', {'tt': list(tt)}, got2.name)
        key = ''.join(map(str, tt))
        got3 = au.binary_tt_to_type.get(key)
        if got3 is None or got3.name != by_tt[tt]:
            acc.violation('_utils.binary_tt_to_type/wrong-entry', {'tt': key}, f'{got3 and got3.name} expected {by_tt[tt]}')
        acc.outcome('tt16', tt)
    if len(cs._tt_to_gate_type) != 16 or len(au.binary_tt_to_type) != 16:
        acc.violation('tables/size', {}, 'table does not have 16 entries')
    # Operation enum: name <-> 4-bit string <-> operators function of the same name
    from cirbo.core.circuit import operators as O

    names = set()
    for op in cs.Operation:
        acc.states += 1
        acc.traces += 1
        tname = op.name[:-1].upper()
        names.add(tname)
        want = ''.join(map(str, tt4(tname))) if tname in bin_types else None
        if want != op.value:
            acc.violation('circuit_search.Operation/wrong-code', {'op': op.name}, f'{op.value} expected {want}')
        fn = getattr(O, op.name)
        for i, (a, b) in enumerate(pairs):
            acc.transitions += 1
            if int(fn(bool(a), bool(b))) != int(op.value[i]):
                acc.violation('circuit_search.Operation/disagrees-with-operator', {'op': op.name, 'a': a, 'b': b}, '')
    if names != set(bin_types):
        acc.violation('circuit_search.Operation/members', {}, sorted(names ^ set(bin_types)))
    # bases
    B = cs.Basis
    aig, xaig, full = set(B.AIG.value), set(B.XAIG.value), set(B.FULL.value)
    if not (aig < xaig < full) or full != set(cs.Operation):
        acc.violation('circuit_search.Basis/inclusion', {}, '')
    if cs.Operation.xor_ in aig or cs.Operation.nxor_ in aig:
        acc.violation('circuit_search.Basis/AIG-has-xor', {}, '')
    if xaig - aig != {cs.Operation.xor_, cs.Operation.nxor_}:
        acc.violation('circuit_search.Basis/XAIG-minus-AIG', {}, '')
    for s, b in (('aig', B.AIG), ('AIG', B.AIG), ('xaig', B.XAIG), ('Xaig', B.XAIG), ('full', B.FULL)):
        if cs.resolve_basis(s) is not b or cs.resolve_basis(b) is not b:
            acc.violation('circuit_search.resolve_basis', {'s': s}, '')
    # subcircuit pattern simulation: 11 supported types, all operand patterns, cones of 1 and 2 inputs
    supported = ('NOT', 'AND', 'NAND', 'OR', 'NOR', 'XOR', 'NXOR', 'GEQ', 'LT', 'LEQ', 'GT')
    for nin in (1, 2):
        po = sc._PatternOperations(nin)
        mask = (1 << (1 << nin)) - 1
        if po.max_pattern != mask:
            acc.violation('subcircuit._PatternOperations/max_pattern', {'n': nin}, po.max_pattern)
        for t in refmodel.ALL_TYPES:
            ar = 1 if t in refmodel.UNARY else 2
            for ops in itertools.product(range(mask + 1), repeat=ar):
                acc.states += 1
                acc.transitions += 1
                acc.traces += 1
                case = {'n': nin, 'type': t, 'patterns': list(ops)}
                try:
                    got = po.eval_pattern(list(ops), t)
                except sc.UnsupportedOperationError:
                    if t in supported:
                        acc.violation('subcircuit.eval_pattern/rejects-supported', case, '')
                    continue
                except Exception as e:  # noqa: BLE001
                    acc.violation('subcircuit.eval_pattern/raises', case, repr(e))
                    continue
                if t not in supported:
                    acc.violation('subcircuit.eval_pattern/accepts-unsupported', case, got)
                    continue
                want = refmodel.gate_fn(t, list(ops), mask)
                if got != want:
                    acc.violation('subcircuit.eval_pattern/wrong-value', case, f'got {got} expected {want}')
    # wider cones (3..8 leaves, patterns of 8..256 bits): operands drawn from the leaf patterns, their
    # complements, 0, all-ones and two mixed patterns
    for nin in range(3, 9):
        po = sc._PatternOperations(nin)
        mask = (1 << (1 << nin)) - 1
        if po.max_pattern != mask:
            acc.violation('subcircuit._PatternOperations/max_pattern', {'n': nin}, hex(po.max_pattern))
        leaves = [sum(((i >> j) & 1) << i for i in range(1 << nin)) for j in range(nin)]
        pats = leaves + [mask ^ v for v in leaves[:2] + leaves[-1:]] + [0, mask, leaves[0] & leaves[-1], leaves[1] ^ leaves[-1] ^ mask]
        for t in supported:
            ar = 1 if t in refmodel.UNARY else 2
            for ops in itertools.product(pats, repeat=ar):
                acc.states += 1
                acc.transitions += 1
                acc.traces += 1
                try:
                    got = po.eval_pattern(list(ops), t)
                except Exception as e:  # noqa: BLE001
                    acc.violation('subcircuit.eval_pattern/raises', {'n': nin, 'type': t, 'patterns': [hex(o) for o in ops]}, repr(e))
                    continue
                want = refmodel.gate_fn(t, list(ops), mask)
                if got != want:
                    acc.violation('subcircuit.eval_pattern/wrong-value', {'n': nin, 'type': t, 'patterns': [hex(o) for o in ops]}, f'got {hex(got)} expected {hex(want)}')
    # _generate_inputs_tt: pattern of input j has bit i = (i >> j) & 1
    for size in range(0, 9):
        got = sc._generate_inputs_tt(size)
        want = [sum(((i >> j) & 1) << i for i in range(1 << size)) for j in range(size)]
        acc.states += 1
        acc.traces += 1
        acc.transitions += 1
        if got != want:
            acc.violation('subcircuit._generate_inputs_tt/wrong', {'size': size}, got)
    # --- CNF templates, bench converters and synthesis gate-type pinning on one-gate circuits of every
    #     type and arity (operands: all tuples over two inputs, arity 2..5 for the n-ary types)
    from cirbo.sat.cnf import tseytin_transformation
    from cirbo.synthesis.circuit_search import CircuitFinderSat
    from cirbo.core.truth_table import TruthTableModel
    from vmc.props import c05

    for t in refmodel.ALL_TYPES:
        if t in refmodel.UNARY:
            arities = (1,)
        elif t in refmodel.CONST:
            arities = (0,)
        elif t in refmodel.SYM:
            arities = (2, 3, 4, 5)
        else:
            arities = (2,)
        for ar in arities:
            for ops in itertools.product(range(2), repeat=ar):
                n, gates, outs = 2, ((t, ops),), (2,)
                net = space.spec_net(n, gates, outs)
                ref = net.tables()
                case = space.spec_json(n, gates, outs)
                acc.states += 1
                acc.traces += 1
                acc.transitions += 2
                c = space.build(n, gates, outs)
                for extra, label in ((None, 'g0'), ('NOT', 'neg')):
                    cc = space.build(n, gates + ((('NOT', (2,)),) if extra else ()), (3,) if extra else (2,))
                    nn = space.spec_net(n, gates + ((('NOT', (2,)),) if extra else ()), (3,) if extra else (2,))
                    ok, cnf = guarded(acc, 'tseytin-template', case, tseytin_transformation, cc)
                    if ok:
                        c05.check_cnf(acc, {**case, 'polarity': label}, cnf.get_raw(), nn, nn.tables(), n, nn.outputs)
                ok, _ = guarded(acc, 'convert-one-gate', case, c.into_bench)
                if ok:
                    got = refmodel.abstract(c)
                    try:
                        if got.tables()['g0'] != ref['g0']:
                            acc.violation('converters/one-gate-function-changed', case, got.to_json())
                    except Exception as e:  # noqa: BLE001
                        acc.violation('converters/one-gate-not-evaluable', case, repr(e))
    for t in bin_types:
        tt = ''.join(str(b) for b in tt4(t))
        for wanted in (t, by_tt[tt4(t)[0:1] + tt4(t)[2:3] + tt4(t)[1:2] + tt4(t)[3:4]]):
            # pinning type `wanted` on a one-gate search for the function of `t`
            acc.states += 1
            acc.traces += 1
            acc.transitions += 1
            case = {'pin': wanted, 'function_of': t}
            try:
                f = CircuitFinderSat(TruthTableModel([list(tt)]), 1, basis='FULL')
                f.fix_gate(2, first_predecessor=0, second_predecessor=1, gate_type=getattr(G, wanted))
                try:
                    r = f.find_circuit()
                    found = r.get_gate('s2').gate_type.name
                except Exception as e:  # noqa: BLE001
                    found = type(e).__name__
            except Exception as e:  # noqa: BLE001
                acc.violation('fix_gate(gate_type)/raises', case, repr(e))
                continue
            expect = wanted if tt4(wanted) == tt4(t) else 'NoSolutionError'
            if found != expect:
                acc.violation('fix_gate(gate_type)/pins-a-different-function', case, f'got {found} expected {expect}')
    acc.sample({'table': 'circuit_search._tt_to_gate_type', 'entry': [0, 0, 1, 0], 'type': 'GT'})


def check_perm(n, gates, acc):
    """Same netlist stored in every order (through the bench parser, which allows use before
    definition) and under two relabelings must evaluate identically."""
    from cirbo.core.circuit import Circuit

    k = len(gates)
    outs = tuple(range(n, n + k)) + (0,)
    base = space.spec_net(n, gates, outs)
    ref = base.out_tables()
    exp_tt = [refmodel.tt_rows(v, n) for v in ref]
    glabs = [space.label(n, n + j) for j in range(k)]
    for order in itertools.permutations(glabs):
        text = space.bench_text(base, list(order))
        case = lambda: {'bench': text}  # noqa: E731
        acc.states += 1
        acc.traces += 1
        acc.transitions += 2
        ok, c = guarded(acc, 'from_bench_string', case, Circuit.from_bench_string, text)
        if not ok:
            continue
        ok, tt = guarded(acc, 'perm/get_truth_table', case, c.get_truth_table)
        if ok and [list(r) for r in tt] != exp_tt:
            acc.violation('storage-order/get_truth_table-differs', case, f'got {tt} expected {exp_tt}')
        ok, gtt = guarded(acc, 'perm/get_gates_truth_table', case, c.get_gates_truth_table)
        if ok:
            full = base.tables()
            for l in base.gates:
                if list(gtt[l]) != refmodel.tt_rows(full[l], n):
                    acc.violation('storage-order/get_gates_truth_table-differs', case, f'gate {l}')
                    break
    # relabelings: reversed names, and names sorting differently from creation order
    for scheme in ('rev', 'zz'):
        if scheme == 'rev':
            labs = [f'n{n + k - 1 - i}' for i in range(n + k)]
        else:
            labs = [f'{"zyxwvu"[i]}{i}' for i in range(n + k)]
        acc.states += 1
        acc.traces += 1
        acc.transitions += 1
        case = lambda: {'spec': space.spec_json(n, gates, outs), 'labels': labs}  # noqa: E731
        ok, c = guarded(acc, 'relabel/build', case, space.build, n, gates, outs, labs)
        if not ok:
            continue
        ok, tt = guarded(acc, 'relabel/get_truth_table', case, c.get_truth_table)
        if ok and [list(r) for r in tt] != exp_tt:
            acc.violation('relabel/get_truth_table-differs', case, f'got {tt} expected {exp_tt}')
    acc.outcome('perm_tt', tuple(ref))


def check_deep(acc, pattern, L, storage):
    """Every evaluation entry point on a chain of L gates (deeper than the interpreter's recursion limit),
    every assignment of its three inputs, both storage orders."""
    c, net = space.deep_chain(pattern, L, storage)
    return _check_net(acc, c, net, {'deep_chain': pattern, 'length': L, 'storage': storage}, ('deep', pattern, L))


def check_prefix(acc, n, K, ti, window):
    """densely shared circuits (gate k reads all / the last few earlier nodes): every entry point, all assignments"""
    from vmc.props import c15

    net = c15.prefix_net(n, K, c15.PREFIX_TYPES[ti], window)
    return _check_net(acc, space.build_from_net(net), net, {'prefix_circuit': [n, K, ti, window]}, ('prefix', n, K, window))


def _check_net(acc, c, net, case, tag):
    ref = net.tables()
    n = len(net.inputs)
    asg = refmodel.assignments(n)
    acc.states += 1
    acc.traces += 1
    olabs = net.outputs
    exp_out = [ref[o] for o in olabs]

    def bad_bool(v, want):
        return not _is_bool(v) or v != want

    ok, gtt = guarded(acc, 'get_gates_truth_table', case, c.get_gates_truth_table)
    acc.transitions += 1
    if ok:
        for l in net.gates:
            if list(gtt.get(l, ())) != refmodel.tt_rows(ref[l], n):
                acc.violation('get_gates_truth_table/wrong-value', case, f'gate {l}')
                break
    ok, tt = guarded(acc, 'get_truth_table', case, c.get_truth_table)
    acc.transitions += 1
    if ok and [list(r) for r in tt] != [refmodel.tt_rows(v, n) for v in exp_out]:
        acc.violation('get_truth_table/wrong-value', case, '')
    for j, x in enumerate(asg):
        a = dict(zip(net.inputs, x))
        want = [bool((v >> j) & 1) for v in exp_out]
        acc.transitions += 5 + len(olabs)
        ok, full = guarded(acc, 'evaluate_full_circuit', case, c.evaluate_full_circuit, dict(a))
        if ok and (len(full) != len(net.gates) or any(bad_bool(full.get(l), bool((ref[l] >> j) & 1)) for l in net.gates)):
            acc.violation('evaluate_full_circuit/wrong-value', case, f'assignment {x}')
        ok, got = guarded(acc, 'evaluate', case, c.evaluate, list(x))
        if ok and (list(got) != want or not all(_is_bool(v) for v in got)):
            acc.violation('evaluate/wrong-value', case, f'x={x} got {got} expected {want}')
        ok, res = guarded(acc, 'evaluate_circuit', case, c.evaluate_circuit, dict(a))
        if ok and any(bad_bool(res.get(o), w) for o, w in zip(olabs, want)):
            acc.violation('evaluate_circuit/wrong-value', case, f'x={x}')
        ok, res = guarded(acc, 'evaluate_circuit_outputs', case, c.evaluate_circuit_outputs, dict(a))
        if ok and any(bad_bool(res.get(o), w) for o, w in zip(olabs, want)):
            acc.violation('evaluate_circuit_outputs/wrong-value', case, f'x={x} got {[res.get(o) for o in olabs]!r}')
        mid = [g_ for g_ in net.gates if g_ not in net.inputs][len(net.gates) // 3 % max(1, len(net.gates) - n)]
        ok, res = guarded(acc, 'evaluate_circuit', case, lambda: c.evaluate_circuit(dict(a), outputs=[mid, olabs[0]]))
        if ok and (bad_bool(res.get(mid), bool((ref[mid] >> j) & 1)) or bad_bool(res.get(olabs[0]), want[0])):
            acc.violation('evaluate_circuit/wrong-value', case, f'x={x} outputs=[{mid}, {olabs[0]}]')
        for i, w in enumerate(want):
            ok, v = guarded(acc, 'evaluate_at', case, c.evaluate_at, list(x), i)
            if ok and bad_bool(v, w):
                acc.violation('evaluate_at/wrong-value', case, f'x={x} output #{i}: {v!r}')
    acc.outcome('gate_tt_signature', tag + (tuple(exp_out),))
    acc.sample(case)


REQUERY_MUTATIONS = ('reverse-inputs(order_inputs)', 'reverse-inputs(set_inputs)', 'swap-two-gate-labels', 'rebuild-first-gate-as-NOR/NOT', 'swap-input-labels')


def _mutate(c, n, gates, labs, how):
    """a public mutation that changes what some gate computes for a fixed value vector; returns False if it
    does not apply to this circuit"""
    from cirbo.core.circuit import gate as G

    if how.startswith('reverse-inputs'):
        if n < 2:
            return False
        if 'order_inputs' in how:
            c.order_inputs(list(reversed(c.inputs)))
        else:
            c.set_inputs(list(reversed(c.inputs)))
        return True
    if how == 'swap-two-gate-labels':
        if len(gates) < 2:
            return False
        a, b = labs[n], labs[n + 1]
        c.rename_gate(a, 'zz_swap')
        c.rename_gate(b, a)
        c.rename_gate('zz_swap', b)
        return True
    if how == 'swap-input-labels':
        if n < 2:
            return False
        a, b = labs[0], labs[1]
        c.rename_gate(a, 'zz_swap')
        c.rename_gate(b, a)
        c.rename_gate('zz_swap', b)
        return True
    # rebuild the first gate under its label with another type (possible when nobody uses it yet is not
    # required: remove users' dependence by going through outputs only)
    t, ops = gates[0]
    if c.get_gate_users(labs[n]):
        return False
    outs = list(c.outputs)
    c.set_outputs([])
    c.remove_gate(labs[n])
    new_t = G.NOR if len(ops) >= 2 else G.NOT if len(ops) == 1 else G.ALWAYS_TRUE if t != 'ALWAYS_TRUE' else G.ALWAYS_FALSE
    c.emplace_gate(labs[n], new_t, tuple(labs[o] for o in ops))
    c.set_outputs(outs)
    return True


def check_requery(n, gates, acc):
    """query(x); mutate the circuit; the SAME query(x) again, nothing else in between: the second answer must
    be that of the circuit as it is now (every entry point that takes a value vector / assignment)."""
    k = len(gates)
    labs = space.labels(n, k)
    outs = tuple(dict.fromkeys((n + k - 1, n, 0) if n else (n + k - 1, n)))
    outs = tuple(o for o in outs if o < n + k)
    asg = refmodel.assignments(n)
    for how in REQUERY_MUTATIONS:
        for x in asg:
            for entry in ('evaluate_at', 'evaluate', 'evaluate_circuit', 'evaluate_full_circuit', 'evaluate_circuit_outputs'):
                c = space.build(n, gates, outs)
                case = lambda: {**space.spec_json(n, gates, outs), 'requery': entry, 'x': list(x), 'mutation': how}  # noqa: E731

                def ask(cc):
                    a = dict(zip(cc.inputs, x))
                    if entry == 'evaluate_at':
                        return [cc.evaluate_at(list(x), i) for i in range(len(outs))]
                    if entry == 'evaluate':
                        return list(cc.evaluate(list(x)))
                    if entry == 'evaluate_circuit':
                        r = cc.evaluate_circuit(a)
                        return [r[o] for o in cc.outputs]
                    if entry == 'evaluate_full_circuit':
                        r = cc.evaluate_full_circuit(a)
                        return [r[l] for l in sorted(cc.gates)]
                    r = cc.evaluate_circuit_outputs(a)
                    return [r[o] for o in cc.outputs]

                try:
                    ask(c)
                    if not _mutate(c, n, gates, labs, how):
                        break
                    acc.transitions += 2
                    acc.traces += 1
                    got = ask(c)
                except Exception as e:  # noqa: BLE001
                    acc.violation(f'{entry}/raises-after-mutation-{type(e).__name__}', case, repr(e)[:200])
                    continue
                net2 = refmodel.abstract(c)
                ref2 = net2.tables()
                keys = sorted(net2.gates) if entry == 'evaluate_full_circuit' else net2.outputs
                want = [bool((ref2[l] >> _row(net2, x)) & 1) for l in keys]
                if [v for v in got] != want or not all(_is_bool(v) for v in got):
                    acc.violation(f'{entry}/stale-answer-after-mutation', case, f'got {got} expected {want}')
            else:
                continue
            break


def _row(net, x):
    """row index of value vector x (positional over net.inputs) in the reference tables"""
    n = len(net.inputs)
    asg = refmodel.assignments(n)
    return asg.index(tuple(bool(b) for b in x))


def run_task(task, acc):
    kind = task['kind']
    if kind == 'ops':
        check_ops(acc)
    elif kind == 'wideops':
        from vmc.props import c15

        c15.check_wide_ops(acc, boolean_only=True)
    elif kind == 'deep':
        check_deep(acc, task['pattern'], task['L'], task['storage'])
    elif kind == 'prefix':
        for K in task['Ks']:
            for ti in range(3):
                check_prefix(acc, task['n'], K, ti, task['window'])
    elif kind == 'tables':
        check_tables(acc)
    elif kind == 'circ':
        alpha = ALPHAS[task['alpha']]
        for gates in space.enum_gates(task['n'], task['k'], alpha, space.prefix_from_task(task)):
            check_circuit(task['n'], gates, acc)
    elif kind == 'requery':
        alpha = ALPHAS[task['alpha']]
        for gates in space.enum_gates(task['n'], task['k'], alpha, space.prefix_from_task(task)):
            check_requery(task['n'], gates, acc)
    elif kind == 'perm':
        alpha = ALPHAS[task['alpha']]
        for gates in space.enum_gates(task['n'], task['k'], alpha, space.prefix_from_task(task)):
            check_perm(task['n'], gates, acc)
            acc.sample({'perm_of': space.spec_json(task['n'], gates)})


def replay(case, acc):
    if 'task' in case:
        return run_task(case['task'], acc)
    if 'deep_chain' in case:
        return check_deep(acc, case['deep_chain'], case['length'], case['storage'])
    if 'prefix_circuit' in case:
        return check_prefix(acc, *case['prefix_circuit'])
    if 'requery' in case:
        n, gates, _ = space.spec_from_json(case)
        return check_requery(n, gates, acc)
    if 'arity' in case and 'operands' in case and isinstance(case['operands'], str):
        from vmc.props import c15

        return c15.check_wide_ops(acc, boolean_only=True)
    if 'bench' in case or 'perm_of' in case or 'labels' in case:
        # re-run the permutation family this text came from is not recoverable from the
        # text alone; evaluate the text directly against the reference parser-free model
        from cirbo.core.circuit import Circuit

        if 'bench' in case:
            c = Circuit.from_bench_string(case['bench'])
            net = refmodel.abstract(c)
            exp = [refmodel.tt_rows(v, len(net.inputs)) for v in net.out_tables()]
            got = [list(r) for r in c.get_truth_table()]
            if got != exp:
                acc.violation('storage-order/get_truth_table-differs', case, f'got {got} expected {exp}')
            return
        spec = case.get('spec') or case.get('perm_of')
        n, gates, outs = space.spec_from_json(spec)
        return check_perm(n, gates, acc)
    if 'n' in case and 'gates' in case:
        n, gates, outs = space.spec_from_json(case)
        pols = [outs] if 'outputs' in case else None
        return check_circuit(n, gates, acc, policies=pols)
    if 'type' in case and 'operands' in case:
        return check_ops(acc)
    return check_tables(acc)
