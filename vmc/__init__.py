"""vmc - bounded exhaustive model checking of SPbSAT/cirbo (see /verif/DESIGN.md)."""
