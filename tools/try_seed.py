#!/usr/bin/env python3
"""Apply one seeded change to /repo, run the demonstration, the baseline suite and the
checks, then revert /repo.  usage: try_seed.py <seed_dir> [--checks C01,C05|all] [--no-baseline]
Writes <seed_dir>/result.json (which checks reported a violation)."""
import json
import os
import subprocess
import sys
import time

REPO = '/repo'
VERIF = os.path.dirname(os.path.dirname(os.path.abspath(__file__)))


def sh(cmd, cwd=None, timeout=3600, env=None):
    p = subprocess.run(cmd, shell=True, cwd=cwd, capture_output=True, text=True, timeout=timeout, env=env)
    return p.returncode, p.stdout + p.stderr


def main():
    seed = os.path.abspath(sys.argv[1])
    args = sys.argv[2:]
    checks = None
    baseline = True
    tier = 'quick'
    for i, a in enumerate(args):
        if a == '--checks':
            checks = args[i + 1]
        if a == '--no-baseline':
            baseline = False
        if a == '--tier':
            tier = args[i + 1]
    props = [json.loads(l)['id'] for l in open(os.path.join(VERIF, 'properties.jsonl'))]
    meta = {}
    mp = os.path.join(seed, 'meta.json')
    if os.path.exists(mp):
        meta = json.load(open(mp))
    if checks in (None, 'own'):
        checks = [meta.get('property')] if meta.get('property') else props
    elif checks == 'all':
        checks = props
    else:
        checks = checks.split(',')
    rc, out = sh('git status --porcelain', REPO)
    if out.strip():
        print('refusing: /repo is not clean:\n' + out)
        return 2
    patch = os.path.join(seed, 'patch.diff')
    res = {'seed': os.path.basename(seed), 'checks': {}, 'tier': tier}
    env = dict(os.environ)
    env['PYTHONDONTWRITEBYTECODE'] = '1'
    try:
        # demonstration on the unchanged tree must pass
        demo = os.path.join(seed, 'demo.py')
        denv = dict(env)
        denv['PYTHONPATH'] = f'{REPO}:/tmp/envshims' if os.path.isdir('/tmp/envshims') else f'{REPO}:{VERIF}/shims:{VERIF}'
        if os.path.exists(demo):
            rc0, o0 = sh(f'/venv/bin/python {demo}', cwd='/tmp', env=denv, timeout=900)
            res['demo_unchanged_rc'] = rc0
        rc, out = sh(f'git apply {patch}', REPO)
        if rc != 0:
            print('patch does not apply:', out)
            res['error'] = 'patch does not apply: ' + out[-300:]
            return 2
        if os.path.exists(demo):
            rc1, o1 = sh(f'/venv/bin/python {demo}', cwd='/tmp', env=denv, timeout=900)
            res['demo_changed_rc'] = rc1
            res['demo_changed_tail'] = o1[-300:]
        if baseline:
            rc, out = sh('/venv/bin/python -m pytest -q -p no:cacheprovider --timeout=900 --continue-on-collection-errors 2>&1 | tail -1', REPO)
            res['baseline'] = out.strip()
        for pid in checks:
            t0 = time.time()
            rc, out = sh(f'./check {pid} --tier {tier}', VERIF, timeout=7200)
            viol = [l for l in out.splitlines() if l.startswith('VIOLATION')]
            sigs = [l.strip() for l in out.splitlines() if l.strip().startswith('violation sig=')]
            res['checks'][pid] = {'rc': rc, 'violations': len(viol), 'wall': round(time.time() - t0, 1), 'sigs': [s[:200] for s in sigs[:4]]}
            print(f'  {pid}: rc={rc} violations={len(viol)} wall={time.time() - t0:.0f}s {sigs[0][:160] if sigs else ""}')
    finally:
        sh('git checkout -- .', REPO)
        rc, out = sh('git status --porcelain', REPO)
        if out.strip():
            print('WARNING: /repo not clean after revert:\n' + out)
        # replays written for seeded violations are not wanted
        sh('rm -f replays/*.json', VERIF)
        # evidence written while /repo was changed does not describe the real tree
        sh('git checkout -- evidence/', VERIF)
    res['detected_by'] = [k for k, v in res['checks'].items() if v['rc'] == 1 and v['violations'] > 0]
    json.dump(res, open(os.path.join(seed, 'result.json'), 'w'), indent=1)
    print(json.dumps({k: res[k] for k in ('seed', 'baseline', 'demo_unchanged_rc', 'demo_changed_rc', 'detected_by') if k in res}))
    return 0


if __name__ == '__main__':
    sys.exit(main())
