#!/bin/sh
# run every registered check of one tier on /repo's current tree; print one summary line each
cd "$(dirname "$0")/.." || exit 1
TIER="${1:-quick}"
for id in $(python3 -c "import json;print(' '.join(c['property_id'] for c in json.load(open('MANIFEST.json'))['checks']))"); do
  s=$(date +%s)
  out=$(./check "$id" --tier "$TIER" 2>&1); rc=$?
  e=$(date +%s)
  echo "$id rc=$rc $((e-s))s $(echo "$out" | grep -c '^VIOLATION') violations $(echo "$out" | grep -c '^KNOWN-FINDING') known"
done
