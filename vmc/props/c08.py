"""C08 - multiplier and squarer generators compute exact products.

(a) all width pairs up to n+m <= W x 7 multiplier entry points x endianness x hosts x all
    operand values; (b) squarers; (c) Karatsuba-recursion widths (18,20,21,23) x m<=3 over
    ALL operand values (enumerated in slices); (d) full-width recursion cases over a stated
    operand alphabet (10 free bit positions per operand around the split points x three
    backgrounds) and folded hosts.
Oracle: bit-sliced schoolbook multiplication on the reference bit-vectors (itself tied to
Python integer multiplication at start-up).
"""

import itertools

from vmc import arith, refmodel

ID = 'C08'

MUL_FNS = ['add_mul', 'add_mul_karatsuba_with_efficient_sum', 'add_mul_alter', 'add_mul_dadda', 'add_mul_wallace',
           'add_mul_pow2_m1', 'add_mul_karatsuba']
MODES = ['DEFAULT', 'KARATSUBA', 'ALTER', 'DADDA', 'WALLACE', 'POW2_M1']
SQ_FNS = ['add_square', 'add_square_pow2_m1']


# -- bit-sliced reference arithmetic ----------------------------------------------------

def bs_add(x, y, width, mask):
    """x, y: lists of bit-vectors (little-endian); returns width bits of x+y."""
    out = []
    carry = 0
    for i in range(width):
        a = x[i] if i < len(x) else 0
        b = y[i] if i < len(y) else 0
        out.append(a ^ b ^ carry)
        carry = (a & b) | (carry & (a ^ b))
    return out


def bs_mul(a, b, width, mask):
    acc = [0] * width
    for i, bi in enumerate(b):
        if i >= width:
            break
        part = [0] * i + [aj & bi for aj in a]
        acc = bs_add(acc, part[:width], width, mask)
    return acc


def selfcheck_reference():
    for n, m in ((3, 3), (4, 2), (1, 5)):
        k = n + m
        iv = refmodel.input_vectors(k)
        mask = (1 << (1 << k)) - 1
        a = iv[:n][::-1]  # make index 0 the LSB
        b = iv[n:][::-1]
        prod = bs_mul(a, b, n + m, mask)
        for j in range(1 << k):
            va = sum(((a[i] >> j) & 1) << i for i in range(n))
            vb = sum(((b[i] >> j) & 1) << i for i in range(m))
            vp = sum(((prod[i] >> j) & 1) << i for i in range(n + m))
            if vp != va * vb:
                raise AssertionError('bit-sliced reference multiplier is wrong')


class Evaluator:
    """Topologically ordered evaluation of a big netlist with last-use freeing."""

    def __init__(self, net):
        self.net = net
        self.order = [k for k in net.topo() if net.gates[k][0] != 'INPUT']
        last = {}
        for idx, k in enumerate(self.order):
            for o in net.gates[k][1]:
                last[o] = idx
        self.free_at = {}
        for o, idx in last.items():
            self.free_at.setdefault(idx, []).append(o)

    def run(self, input_vals, mask, keep):
        val = dict(input_vals)
        keep = set(keep)
        gates = self.net.gates
        for idx, k in enumerate(self.order):
            t, ops = gates[k]
            val[k] = refmodel.gate_fn(t, [val[o] for o in ops], mask)
            for o in self.free_at.get(idx, ()):
                if o not in keep and o in val and gates[o][0] != 'INPUT':
                    del val[o]
        return val


def product_check(acc, sig, case, feats, net, ev, a_labels, b_labels, res, input_vals, mask, big_endian, square=False):
    keep = set(res) | set(a_labels) | set(b_labels)
    val = ev.run(input_vals, mask, keep)
    a = [val[l] for l in (a_labels[::-1] if big_endian else a_labels)]
    b = [val[l] for l in (b_labels[::-1] if big_endian else b_labels)]
    r = [val[l] for l in (list(res)[::-1] if big_endian else list(res))]
    want = bs_mul(a, b, len(r), mask)
    # the product must also FIT: bits above len(res) of the true product must be zero
    full = bs_mul(a, b, len(a) + len(b), mask)
    if any(full[i] for i in range(len(r), len(full))):
        acc.violation(f'{sig}/result-too-narrow', case, f'{len(r)} result bits cannot hold the product', feats)
        return False
    if r != want:
        i = next(i for i in range(len(r)) if r[i] != want[i])
        diff = r[i] ^ want[i]
        j = (diff & -diff).bit_length() - 1
        va = sum(((a[k] >> j) & 1) << k for k in range(len(a)))
        vb = sum(((b[k] >> j) & 1) << k for k in range(len(b)))
        vr = sum(((r[k] >> j) & 1) << k for k in range(len(r)))
        acc.violation(f'{sig}/wrong-product', case, f'a={va} b={vb} got {vr} expected {va * vb} (bit {i})', feats)
        return False
    return True


def build_and_check(acc, fn, n, m, be, hkind, square=False, values='all', gen_mode=None):
    """One configuration. values: 'all' | ('alphabet', free_a, free_b) | ('slices', nfree)."""
    import cirbo.synthesis.generation.arithmetics as A
    from vmc import boot

    boot.uuid_counter.reset()
    case = {'fn': fn, 'n': n, 'm': m, 'big_endian': be, 'host': hkind, 'values': values if isinstance(values, str) else list(values), 'mode': gen_mode}
    feats = {'fn': fn, 'host': hkind}
    acc.states += 1
    acc.traces += 1
    acc.transitions += 1
    k = n if square else n + m
    try:
        if gen_mode is not None:
            if square:
                c = A.generate_square(n, type=getattr(A.SquareMode, gen_mode), big_endian=be)
            else:
                c = A.generate_mul(n, m, type=getattr(A.MulMode, gen_mode), big_endian=be)
            net = refmodel.abstract(c)
            ops = list(net.inputs)
            res = list(net.outputs)
            before = None
        else:
            if hkind in ('H0', 'H1'):
                c, ops = arith.host(hkind, k)
            elif hkind == 'SATW':
                c, ops = arith.saturated_host(k, wide=True)
            elif hkind == 'DEC':
                c, ops = arith.decoy_host(k)
            elif hkind == 'ODD':
                c, ops = arith.odd_label_host(k)
            elif isinstance(hkind, tuple):  # ('REP', circuit, operand labels) prepared by the caller
                _, c, ops = hkind
                hkind = 'REP:' + ','.join(ops)
                case['host'] = hkind
                feats['host'] = 'REP'
            else:  # folded host
                from vmc.props.c07 import folded_host

                c, ops = folded_host(int(hkind[1:]), k)
            before = arith.snapshot(c)
            f = getattr(A, fn)
            if square:
                res = f(c, list(ops), big_endian=be)
            else:
                res = f(c, list(ops[:n]), list(ops[n:]), big_endian=be)
    except Exception as e:  # noqa: BLE001
        acc.violation(f'{fn}/raises-{type(e).__name__}', case, repr(e)[:300], feats)
        return
    if before is not None:
        ok, net = arith.host_untouched(acc, fn, case, c, before, feats)
        if not ok:
            return
    else:
        if refmodel.wellformed(c, deep=False) or len(net.inputs) != k:
            acc.violation(f'{fn}/shape', case, '', feats)
            return
    missing = [l for l in res if l not in net.gates]
    if missing:
        acc.violation(f'{fn}/result-label-is-not-a-gate', case, str(missing[:3]), feats)
        return
    if square:
        want_len = 1 if n == 1 else 2 * n
    else:
        want_len = n + m - 1 if (n == 1 or m == 1) else n + m
    if len(res) != want_len:
        acc.violation(f'{fn}/result-width', case, f'{len(res)} bits, expected {want_len}', feats)
        return
    a_labels = list(ops[:n])
    b_labels = list(ops[:n]) if square else list(ops[n:n + m])
    ev = Evaluator(net)
    nin = len(net.inputs)
    if values == 'all' and nin <= 20:
        iv = refmodel.input_vectors_cached(nin)
        mask = (1 << (1 << nin)) - 1
        product_check(acc, fn, case, feats, net, ev, a_labels, b_labels, res, dict(zip(net.inputs, iv)), mask, be, square)
    elif values == 'all':
        # enumerate all 2^nin assignments in slices of 2^18 rows
        free = 18
        fixed = nin - free
        iv = refmodel.input_vectors_cached(free)
        mask = (1 << (1 << free)) - 1
        for hi in range(1 << fixed):
            vals = {}
            for i, l in enumerate(net.inputs):
                if i < fixed:
                    vals[l] = mask if (hi >> i) & 1 else 0
                else:
                    vals[l] = iv[i - fixed]
            acc.transitions += 1
            if not product_check(acc, fn, case, feats, net, ev, a_labels, b_labels, res, vals, mask, be, square):
                break
    else:
        # stated operand alphabet: free bit positions + backgrounds for the other bits
        _, free_pos = values
        free_list = sorted(free_pos)
        f = len(free_list)
        iv = refmodel.input_vectors_cached(f)
        mask = (1 << (1 << f)) - 1
        others = [i for i in range(nin) if i not in free_pos]
        bgs = ['zero', 'one', 'alt'] if square else ['zero/zero', 'zero/one', 'zero/alt', 'one/zero', 'one/one', 'one/alt', 'alt/zero', 'alt/one', 'alt/alt']
        for bg in bgs:
            vals = {}
            for idx, i in enumerate(free_list):
                vals[net.inputs[i]] = iv[idx]
            for i in others:
                which = bg if square else (bg.split('/')[0] if i < n else bg.split('/')[1])
                bit = {'zero': 0, 'one': 1, 'alt': (i % 2)}[which]
                vals[net.inputs[i]] = mask if bit else 0
            acc.transitions += 1
            if not product_check(acc, fn, case, {**feats, 'background': bg}, net, ev, a_labels, b_labels, res, vals, mask, be, square):
                break
    acc.outcome('mul', (fn, n, m, be, hkind if isinstance(hkind, str) else 'gen', len(net.gates)))


def reuse_check(acc, fn, n, m, be):
    """The caller keeps its operand lists and uses them for two multipliers in the same host (and, for
    n == m, passes the same list object as both operands): both results must be exact, the lists untouched."""
    import cirbo.synthesis.generation.arithmetics as A
    from vmc import boot

    boot.uuid_counter.reset()
    case = {'fn': fn, 'n': n, 'm': m, 'big_endian': be, 'scenario': 'operand lists reused for a second call'}
    feats = {'fn': fn, 'scenario': 'reuse'}
    acc.states += 1
    acc.traces += 1
    acc.transitions += 2
    c, ops = arith.host('H1', n + m)
    a, b = list(ops[:n]), list(ops[n:])
    a0, b0 = list(a), list(b)
    f = getattr(A, fn)
    try:
        r1 = f(c, a, b, big_endian=be)
        r2 = f(c, a, b, big_endian=be)
        r3 = f(c, a, a, big_endian=be)
    except Exception as e:  # noqa: BLE001
        acc.violation(f'{fn}/raises-{type(e).__name__}', case, repr(e)[:300], feats)
        return
    if a != a0 or b != b0:
        acc.violation(f'{fn}/modifies-the-operand-lists-it-was-given', case, f'{a} {b}', feats)
    net = refmodel.abstract(c)
    ev = Evaluator(net)
    nin = len(net.inputs)
    iv = refmodel.input_vectors_cached(nin)
    mask = (1 << (1 << nin)) - 1
    vals = dict(zip(net.inputs, iv))
    for tag, res, x, y in (('first', r1, a0, b0), ('second', r2, a0, b0), ('square', r3, a0, a0)):
        want_len = len(x) + len(y) - 1 if (len(x) == 1 or len(y) == 1) else len(x) + len(y)
        if len(res) != want_len:
            acc.violation(f'{fn}/result-width', {**case, 'call': tag}, f'{len(res)} bits, expected {want_len}', feats)
            return
        if not product_check(acc, fn, {**case, 'call': tag}, feats, net, ev, x, y, res, vals, mask, be):
            return


def alphabet_positions(n, m=None):
    """10 free bit positions per operand around the split points (LSB side, middle, MSB side)."""
    def pick(w, off):
        mid = w // 2
        pos = {0, 1, mid - 2, mid - 1, mid, mid + 1, w - 3, w - 2, w - 1, mid // 2}
        pos = sorted(p for p in pos if 0 <= p < w)[:10]
        return {off + p for p in pos}
    if m is None:
        # squarer: 20 free positions of the single operand
        mid = n // 2
        pos = {0, 1, 2, mid - 3, mid - 2, mid - 1, mid, mid + 1, mid + 2, n - 3, n - 2, n - 1, mid // 2, mid // 2 + 1, mid + mid // 2, mid + mid // 2 + 1, 3, n - 4, mid - 4, mid + 3}
        return set(sorted(p for p in pos if 0 <= p < n)[:20])
    return pick(n, 0) | pick(m, n)


def VARIANT_PRED(t, v):
    if v != 'deepcopy':
        return False
    k = t.get('kind')
    return (k == 'small' and t['n'] + t['m'] <= 5) or (k == 'square' and t['n'] <= 4)


def plan(tier):
    q = True  # the wide-operand families are the same in both tiers (the larger ones proved too slow to re-verify)
    small_w = 13 if tier == 'quick' else 14
    t = []
    W = small_w
    for n in range(1, W):
        for m in range(1, W - n + 1):
            t.append({'kind': 'small', 'n': n, 'm': m})
    for n in range(1, (12 if tier == 'quick' else 13) + 1):
        t.append({'kind': 'square', 'n': n})
    rec = [(n, m) for n in (18, 20, 21, 23) for m in ((1, 2, 3) if q else (1, 2, 3, 4))] + [(1, 18), (2, 20)]
    if not q:
        rec += [(3, 21), (19, 3), (22, 2), (24, 1), (36, 1)]
    for n, m in rec:
        for fn in ('add_mul_karatsuba_with_efficient_sum', 'add_mul_karatsuba'):
            t.append({'kind': 'rec', 'n': n, 'm': m, 'fn': fn})
    odd_half = [(21, 11), (11, 21), (23, 12), (37, 19)] if q else [(21, 11), (11, 21), (23, 12), (12, 23), (25, 13), (37, 19), (19, 37), (41, 21), (43, 22)]
    for n, m in odd_half:  # the larger width odd, the other one exactly half of it rounded up
        for fn in ('add_mul_karatsuba_with_efficient_sum', 'add_mul_karatsuba'):
            t.append({'kind': 'full', 'n': n, 'm': m, 'fn': fn, 'be': (n + m) % 4 == 0})
    full = [(18, 18), (20, 20), (21, 21), (19, 20), (36, 36)] if q else [
        (18, 18), (20, 20), (21, 21), (19, 20), (23, 23), (24, 24), (35, 35), (36, 36), (37, 37), (40, 40), (18, 36), (36, 20)]
    for n, m in full:
        for fn in ('add_mul_karatsuba_with_efficient_sum', 'add_mul_karatsuba'):
            for be in (False, True):
                t.append({'kind': 'full', 'n': n, 'm': m, 'fn': fn, 'be': be})
    wide = [(25, 25), (33, 26), (31, 31), (24, 40)] if q else [(25, 25), (26, 27), (33, 26), (31, 31), (32, 32), (24, 40), (40, 24)]
    for n, m in wide:
        for fn in ('add_mul_pow2_m1', 'add_mul', 'add_mul_dadda', 'add_mul_wallace', 'add_mul_alter'):
            t.append({'kind': 'full', 'n': n, 'm': m, 'fn': fn, 'be': (n + m) % 2 == 1})
    sq = [47, 48, 49, 50, 53, 54] if q else [47, 48, 49, 50, 51, 52, 53, 54, 55, 60, 64]
    for n in sq:
        for be in (False, True):
            t.append({'kind': 'fullsq', 'n': n, 'be': be})
    for n, m in ((18, 18), (20, 20)) if q else ((18, 18), (20, 20), (24, 24), (36, 36)):
        t.append({'kind': 'folded', 'n': n, 'm': m})
    t.append({'kind': 'foldedsq', 'n': 48})
    return t


def describe(tier):
    return {
        'rule': 'REP hosts for n+m<=4 / squares n<=3: operand bit lists drawn with repeats from three inputs and the two constant gates (every such list); SATW host for n+m<=4 / squares n<=4: a host that already holds every two-operand gate over every ordered pair of operand bits and n-ary decoys containing such a pair, and a DEC host with the decoys only; small: every width pair (n,m), n+m<=W x 7 multiplier entry points (add_mul, Karatsuba with efficient sum, alter, Dadda, '
        'Wallace, 2^k-1, plain Karatsuba) x endianness x hosts (H0 inputs, H1 non-input operands) + generate_mul for the 6 modes, ALL '
        'operand values; for n+m<=7 also two calls reusing the same operand list objects and one with the same list as both operands; square: add_square/add_square_pow2_m1/generate_square likewise; rec: Karatsuba-recursion widths x short '
        'second operand, ALL operand values (2^(n+m) rows in slices of 2^18); full/fullsq: recursion inside recursion, the squarer split, and the other five entry points at widths 24..40 (column heights >= 25) '
        'split over a STATED operand alphabet: 10 free bit positions per operand (20 for squares) around bit 0, the split point and '
        'the top, every other bit fixed by each of 3 backgrounds (all 0, all 1, alternating) -> 9 x 2^20 operand pairs per width '
        '(3 x 2^20 per square width); folded: operands driven by a 16-input host. Oracle: bit-sliced schoolbook product. '
        'distinct = distinct (entry point, widths, endianness, host, gate count).',
        'bounds': {'quick': 'W=13 (n+m<=13), squares n<=12, rec {18,20,21,23} x m<=3 and (1,18),(2,20) (all values), full 18x18,20x20,21x21,19x20,36x36, squares 47,48,49,50,53,54, folded 18x18, 20x20, square 48',
                   'thorough': 'as quick, with W=14 (n+m<=14) and squares n<=13'}[tier],
        'exhaustive': True,
        'explanation': 'exhaustive over operand VALUES only for the small/square/rec groups; full/fullsq/folded are exhaustive over the stated operand alphabet and say nothing about other operand values',
        'assumptions': ['vmc.refmodel gate table; bit-sliced reference multiplier (checked against Python integer multiplication at start-up)'],
    }


def probe():
    from vmc import boot
    import cirbo.synthesis.generation.arithmetics as A

    boot.uuid_counter.reset()
    return refmodel.abstract(A.generate_mul(2, 2)).to_json()


def run_task(task, acc):
    selfcheck_reference()
    k = task['kind']
    if k == 'small' and (task['n'], task['m']) == (2, 3):
        import cirbo.synthesis.generation.arithmetics as A

        for mode in MODES:
            acc.states += 1
            acc.traces += 1
            arith.fresh_generator_check(acc, f'generate_mul({mode})', lambda mode=mode: A.generate_mul(2, 3, type=getattr(A.MulMode, mode)))
        for mode in ('DEFAULT', 'POW2_M1'):
            acc.states += 1
            acc.traces += 1
            arith.fresh_generator_check(acc, f'generate_square({mode})', lambda mode=mode: A.generate_square(3, type=getattr(A.SquareMode, mode)))
    if k == 'small' and task['n'] + task['m'] <= 7:
        for fn in MUL_FNS:
            for be in (False, True):
                reuse_check(acc, fn, task['n'], task['m'], be)
    if k == 'small':
        n, m = task['n'], task['m']
        for fn in MUL_FNS:
            for be in (False, True):
                for h in ('H0', 'H1') + (('SATW', 'DEC') if n + m <= 4 else ()) + (('ODD',) if n + m <= 8 else ()):
                    build_and_check(acc, fn, n, m, be, h)
        if n + m <= 4:
            # operand bits listed with repeats and constant gates among them (sign-extended / shifted operands)
            for fn in MUL_FNS:
                for be in (False, True):
                    for tag, c_, ops_ in arith.repeated_operand_hosts(n, m):
                        build_and_check(acc, fn, n, m, be, ('REP', c_, ops_))
        for mode in MODES:
            for be in (False, True):
                build_and_check(acc, 'generate_mul', n, m, be, 'gen', gen_mode=mode)
        acc.sample({'fn': 'add_mul_dadda', 'n': n, 'm': m, 'big_endian': True, 'host': 'H1', 'values': 'all'})
    elif k == 'square':
        n = task['n']
        for fn in SQ_FNS:
            for be in (False, True):
                for h in ('H0', 'H1') + (('SATW', 'DEC') if n <= 4 else ()) + (('ODD',) if n <= 8 else ()):
                    build_and_check(acc, fn, n, n, be, h, square=True)
                if n <= 3:
                    for tag, c_, ops_ in arith.repeated_operand_hosts(n):
                        build_and_check(acc, fn, n, n, be, ('REP', c_, ops_), square=True)
        for mode in ('DEFAULT', 'POW2_M1'):
            for be in (False, True):
                build_and_check(acc, 'generate_square', n, n, be, 'gen', square=True, gen_mode=mode)
        acc.sample({'fn': 'add_square', 'n': n, 'm': n, 'big_endian': False, 'host': 'H0', 'values': 'all'})
    elif k == 'rec':
        build_and_check(acc, task['fn'], task['n'], task['m'], False, 'H0')
        acc.sample({'fn': task['fn'], 'n': task['n'], 'm': task['m'], 'big_endian': False, 'host': 'H0', 'values': 'all'})
    elif k == 'full':
        n, m = task['n'], task['m']
        build_and_check(acc, task['fn'], n, m, task['be'], 'H0', values=('alphabet', sorted(alphabet_positions(n, m))))
        acc.sample({'fn': task['fn'], 'n': n, 'm': m, 'big_endian': task['be'], 'host': 'H0', 'values': ['alphabet', sorted(alphabet_positions(n, m))]})
    elif k == 'fullsq':
        n = task['n']
        for fn in ('add_square',):
            build_and_check(acc, fn, n, n, task['be'], 'H0', square=True, values=('alphabet', sorted(alphabet_positions(n))))
        acc.sample({'fn': 'add_square', 'n': n, 'm': n, 'big_endian': task['be'], 'host': 'H0', 'values': ['alphabet', sorted(alphabet_positions(n))]})
    elif k == 'folded':
        for fn in ('add_mul_karatsuba_with_efficient_sum', 'add_mul_karatsuba', 'add_mul_dadda'):
            build_and_check(acc, fn, task['n'], task['m'], False, 'F16')
    elif k == 'foldedsq':
        build_and_check(acc, 'add_square', task['n'], task['n'], False, 'F16', square=True)


def replay(case, acc):
    selfcheck_reference()
    if 'task' in case:
        return run_task(case['task'], acc)
    vals = case.get('values', 'all')
    if isinstance(vals, list):
        vals = ('alphabet', vals[1])
    square = 'square' in case['fn']
    build_and_check(acc, case['fn'], case['n'], case['m'], case['big_endian'], case['host'], square=square, values=vals, gen_mode=case.get('mode'))
