"""Environment shim of the `pysat` API subset that cirbo uses (python-sat is absent from
this image).  Backed by /verif/vmc/vsat.py; the model handed back by Solver.solve() is an
environment answer owned by the harness (see pysat.solvers.ENV)."""
__version__ = 'vmc-shim'
