"""Check runner: parallel exhaustive enumeration, accumulation, findings, evidence.

A property module (vmc.props.cNN) provides

    ID                      'C01'
    plan(tier) -> list      JSON-able task descriptors (each a slice of the space)
    run_task(task, acc)     enumerate the slice, call acc.* (executed in a worker)
    replay(case, acc)       re-run one recorded case (same oracle, no explorer)
    describe(tier) -> dict  rule / bounds text for the evidence file
    probe() -> object       (optional) a deterministic observation; run twice

Nothing here samples: tasks partition the space and every task runs to completion.
"""

import collections
import hashlib
import json
import multiprocessing
import os
import sys
import time
import traceback

from vmc import boot

MAX_VIOL_PER_SIG = 3
MAX_SAMPLES = 4


class Acc:
    """Per-task accumulator, merged in the parent."""

    def __init__(self):
        self.counters = collections.Counter()
        self.outcomes = collections.defaultdict(set)
        self.viol = {}  # sig -> [count, [records]]
        self.samples = []
        self.states = 0
        self.transitions = 0
        self.traces = 0

    # -- bookkeeping ------------------------------------------------------
    def count(self, name, k=1):
        self.counters[name] += k

    def outcome(self, kind, value):
        s = self.outcomes[kind]
        if len(s) < 200000:
            s.add(value)

    def sample(self, case):
        if len(self.samples) < MAX_SAMPLES:
            self.samples.append(case)

    def violation(self, sig, case, detail='', features=None):
        """sig: stable 'site/kind' string; case: JSON-able replayable description
        (a callable is invoked lazily only when the record is kept)."""
        ent = self.viol.get(sig)
        if ent is None:
            ent = self.viol[sig] = [0, []]
        ent[0] += 1
        if len(ent[1]) < MAX_VIOL_PER_SIG:
            if callable(case):
                case = case()
            if callable(detail):
                detail = detail()
            from vmc import space

            if space.VARIANT[0] and isinstance(case, dict) and 'variant' not in case:
                case = {**case, 'variant': space.VARIANT[0]}
            ent[1].append({'sig': sig, 'case': case, 'detail': detail, 'features': features or {}})

    def merge(self, other):
        self.counters.update(other.counters)
        for k, s in other.outcomes.items():
            self.outcomes[k] |= s
        for sig, (cnt, recs) in other.viol.items():
            ent = self.viol.setdefault(sig, [0, []])
            ent[0] += cnt
            for r in recs:
                if len(ent[1]) < MAX_VIOL_PER_SIG:
                    ent[1].append(r)
        for s in other.samples:
            if len(self.samples) < MAX_SAMPLES:
                self.samples.append(s)
        self.states += other.states
        self.transitions += other.transitions
        self.traces += other.traces


def guarded(acc, sig_site, case, fn, *args, **kw):
    """Run a library call that must not raise; an exception is a violation."""
    try:
        return True, fn(*args, **kw)
    except Exception as e:  # noqa: BLE001
        acc.violation(f'{sig_site}/raises-{type(e).__name__}', case, repr(e)[:300])
        return False, None


_MOD = None


def _load(pid):
    import importlib

    return importlib.import_module(f'vmc.props.{pid.lower()}')


def _worker_init(pid):
    global _MOD
    boot.install()
    try:
        import resource

        gb = int(os.environ.get('VERIF_WORKER_GB', '20'))
        resource.setrlimit(resource.RLIMIT_AS, (gb << 30, gb << 30))
    except Exception:  # noqa: BLE001
        pass
    _MOD = _load(pid)


class _TaskTimeout(BaseException):
    pass


def _on_alarm(signum, frame):
    raise _TaskTimeout()


def _worker_run(task):
    import signal

    from vmc import space

    acc = Acc()
    space.VARIANT[0] = task.get('variant') if isinstance(task, dict) else None
    # horizon: a task that does not come back (a library call that loops on a malformed circuit) is a failure,
    # not a hang of the whole check
    limit = int(os.environ.get('VERIF_TASK_TIMEOUT', '3600'))
    try:
        signal.signal(signal.SIGALRM, _on_alarm)
        signal.alarm(limit)
    except Exception:  # noqa: BLE001
        pass
    try:
        _MOD.run_task(task, acc)
    except _TaskTimeout:
        acc.violation('harness/task-did-not-terminate', {'task': task}, f'no result within {limit}s (a library call probably does not terminate)')
    except MemoryError:
        acc.violation('harness/task-out-of-memory', {'task': task}, 'memory limit of the worker exceeded (a library call probably does not terminate)')
    except Exception:  # noqa: BLE001
        acc.violation(
            'harness/unexpected-exception',
            {'task': task},
            traceback.format_exc()[-2000:],
        )
    finally:
        try:
            signal.alarm(0)
        except Exception:  # noqa: BLE001
            pass
    return acc


def _json_default(o):
    if isinstance(o, (set, frozenset)):
        return sorted(o, key=repr)
    if isinstance(o, tuple):
        return list(o)
    return repr(o)


def load_findings():
    p = os.path.join(boot.VERIF_DIR, 'known_findings.json')
    if not os.path.exists(p):
        return []
    with open(p) as f:
        return json.load(f).get('findings', [])


def finding_matches(f, pid, rec):
    """A known finding matches a violation record iff same property, same signature
    (exact, or prefix when the entry's sig ends with '*'), and every key of `when` equals
    the record's feature of the same name (a list value = any of)."""
    if f.get('status') == 'fixed':
        return False
    if f.get('property') != pid:
        return False
    sig = f.get('sig', '')
    if sig.endswith('*'):
        if not rec['sig'].startswith(sig[:-1]):
            return False
    elif sig != rec['sig']:
        return False
    feats = rec.get('features') or {}
    for k, v in (f.get('when') or {}).items():
        got = feats.get(k)
        if isinstance(v, list):
            if got not in v:
                return False
        elif got != v:
            return False
    return True


def _default_variant_pred(t, v):
    return 'n' in t and 'k' in t and 'prefix' in t and t['n'] + t['k'] <= 3


def run_check(pid, tier, jobs=None, only_task=None):
    t0 = time.time()
    mod = _load(pid)
    seed = boot.seed()
    jobs = jobs or int(os.environ.get('VERIF_JOBS', '0')) or (os.cpu_count() or 4)

    # determinism probe: the same recorded case observed twice must agree
    if hasattr(mod, 'probe'):
        boot.uuid_counter.reset()
        a = json.dumps(mod.probe(), sort_keys=True, default=_json_default)
        boot.uuid_counter.reset()
        b = json.dumps(mod.probe(), sort_keys=True, default=_json_default)
        if a != b:
            print(f'HARNESS-ERROR property={pid} nondeterministic probe')
            return 2

    tasks = mod.plan(tier)
    # object variants: the smallest tasks are run again with every harness-built circuit handed over as a
    # copy.deepcopy (equal but not identical GateType objects); modules may choose their own tasks / variants
    pred = getattr(mod, 'VARIANT_PRED', _default_variant_pred)
    extra = []
    for v in getattr(mod, 'VARIANTS', ('deepcopy', 'requeried', 'scrambled')):
        extra += [{**t, 'variant': v} for t in tasks if isinstance(t, dict) and 'variant' not in t and pred(t, v)]
    tasks = tasks + extra
    if only_task is not None:
        tasks = [tasks[only_task]]
    total = Acc()
    ctx = multiprocessing.get_context('fork')
    if jobs == 1 or len(tasks) == 1:
        global _MOD
        _MOD = mod
        for t in tasks:
            total.merge(_worker_run(t))
    else:
        with ctx.Pool(min(jobs, len(tasks)), initializer=_worker_init, initargs=(pid,)) as pool:
            for acc in pool.imap_unordered(_worker_run, tasks, chunksize=1):
                total.merge(acc)

    if hasattr(mod, 'finish'):
        mod.finish(total, tier)

    # classify violations
    findings = load_findings()
    known_lines = []
    new_viol = []
    for sig, (cnt, recs) in sorted(total.viol.items()):
        unmatched = []
        matched = {}
        for r in recs:
            hit = None
            for f in findings:
                if finding_matches(f, pid, r):
                    hit = f
                    break
            if hit is None:
                unmatched.append(r)
            else:
                matched.setdefault(hit['id'], (hit, 0))
                matched[hit['id']] = (hit, matched[hit['id']][1] + 1)
        for fid, (f, _) in matched.items():
            known_lines.append(f"KNOWN-FINDING: property={pid} {fid}: {f.get('what', '')}")
        if unmatched:
            new_viol.append((sig, cnt, unmatched))
    # NB: a signature whose recorded examples all match but whose count exceeds the
    # kept records could hide unlisted cases; modules that use known findings therefore
    # give listed defects their own signature (classification happens in the module).

    os.makedirs(os.path.join(boot.VERIF_DIR, 'replays'), exist_ok=True)
    viol_lines = []
    for sig, cnt, recs in new_viol:
        r = recs[0]
        blob = json.dumps({'property': pid, 'count_same_sig': cnt, **r}, sort_keys=True, default=_json_default, indent=1)
        h = hashlib.sha1(blob.encode()).hexdigest()[:10]
        path = os.path.join(boot.VERIF_DIR, 'replays', f'{pid}-{h}.json')
        with open(path, 'w') as f:
            f.write(blob)
        viol_lines.append(f'VIOLATION property={pid} replay={path}')
        print(f'  violation sig={sig} count={cnt} detail={str(r["detail"])[:400]}')
        print(f'  case={json.dumps(r["case"], default=_json_default)[:600]}')

    wall = time.time() - t0
    desc = mod.describe(tier) if hasattr(mod, 'describe') else {}
    if extra and isinstance(desc.get('rule'), str):
        kinds = sorted({t['variant'] for t in extra})
        desc['rule'] += (f' Object variants: {len(extra)} re-runs of the smallest tasks with every harness-built circuit handed to the library '
                         f'as another Python object ({", ".join(kinds)}; deepcopy / fresh-labels: equal but not identical GateType / label objects; '
                         f'scrambled: the gate map lists users before operands; requeried: the circuit is reached by a detour - a precursor with reversed inputs and another last gate is built, queried in every read-only way, then mutated into the wanted circuit).')
    distinct = {k: len(v) for k, v in total.outcomes.items()}
    coverage = {
        'states': int(total.states),
        'transitions': int(total.transitions),
        'traces_validated_against_impl': int(total.traces),
        'samples': total.samples[:MAX_SAMPLES] or [{'note': 'no sample recorded'}],
        'evaluations': int(total.traces or total.transitions or total.states),
        'distinct_nontrivial': int(sum(distinct.values())),
        'rule': desc.get('rule', ''),
        'exhaustive': bool(desc.get('exhaustive', True)),
        'bounds': desc.get('bounds', {}),
        'distinct_outcomes': distinct,
        'counters': dict(sorted(total.counters.items())),
        'tasks': len(tasks),
        'jobs': jobs,
        'known_findings_reported': sorted(set(known_lines)),
        'explanation': desc.get('explanation', ''),
    }
    ev = {
        'property_id': pid,
        'tier': tier,
        'seed': seed,
        'level': 'model_checking',
        'coverage': coverage,
        'assumptions': desc.get('assumptions', []),
        'wall_s': round(wall, 2),
        'violations': len(new_viol),
    }
    os.makedirs(os.path.join(boot.VERIF_DIR, 'evidence'), exist_ok=True)
    with open(os.path.join(boot.VERIF_DIR, 'evidence', f'{pid}.json'), 'w') as f:
        json.dump(ev, f, indent=1, sort_keys=True, default=_json_default)
        f.write('\n')

    print(
        f'{pid} tier={tier} seed={seed} tasks={len(tasks)} states={total.states} '
        f'transitions={total.transitions} traces={total.traces} '
        f'distinct={distinct} wall={wall:.1f}s'
    )
    for line in sorted(set(known_lines)):
        print(line)
    for line in viol_lines:
        print(line)
    sys.stdout.flush()
    return 1 if viol_lines else 0


def run_replay(path):
    with open(path) as f:
        rec = json.load(f)
    pid = rec['property']
    mod = _load(pid)
    acc = Acc()
    from vmc import space

    case = rec['case']
    space.VARIANT[0] = case.get('variant') or (case.get('task') or {}).get('variant') if isinstance(case, dict) else None
    mod.replay(case, acc)
    if acc.viol:
        for sig, (cnt, recs) in acc.viol.items():
            print(f'reproduced sig={sig} count={cnt} detail={str(recs[0]["detail"])[:600]}')
        print(f'VIOLATION property={pid} replay={path}')
        return 1
    print(f'replay of {path}: no violation on this tree')
    return 0
