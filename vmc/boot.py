"""Process bootstrap: interpreter environment, import path, determinism seams.

Everything the harness needs to own before cirbo is imported:

* ``PYTHONHASHSEED`` fixed from ``VERIF_SEED`` (re-exec once if it is not),
* ``/repo`` (working tree, never ``/repo/build``) and ``/verif/shims`` first on
  ``sys.path``; no byte-code written into /repo,
* ``uuid.uuid4`` replaced by a counter (fresh-label source of the library).
"""

import os
import sys
import uuid

VERIF_DIR = os.path.dirname(os.path.dirname(os.path.abspath(__file__)))
REPO_DIR = os.environ.get('VERIF_REPO', '/repo')
SHIMS_DIR = os.path.join(VERIF_DIR, 'shims')


def seed() -> int:
    try:
        return int(os.environ.get('VERIF_SEED', '0'))
    except ValueError:
        return 0


def ensure_env(argv_module: str) -> None:
    """Re-exec the interpreter once so that the hash seed is the one we chose."""
    want = str(seed() % 4294967296)
    if os.environ.get('PYTHONHASHSEED') != want or os.environ.get('VMC_BOOTED') != '1':
        env = dict(os.environ)
        env['PYTHONHASHSEED'] = want
        env['VMC_BOOTED'] = '1'
        env['PYTHONDONTWRITEBYTECODE'] = '1'
        env['CIRBO_VERIF'] = '1'
        env['PYTHONPATH'] = os.pathsep.join([REPO_DIR, SHIMS_DIR, VERIF_DIR])
        os.execve(sys.executable, [sys.executable, '-m', argv_module] + sys.argv[1:], env)


class _UuidCounter:
    """Deterministic replacement of uuid.uuid4 (a plain counter)."""

    def __init__(self):
        self.k = 0
        self.script = []  # forced answers (ints), consumed first

    def __call__(self):
        if self.script:
            return uuid.UUID(int=self.script.pop(0))
        self.k += 1
        return uuid.UUID(int=self.k)

    def reset(self, k: int = 0):
        self.k = k
        self.script = []


uuid_counter = _UuidCounter()


def install() -> None:
    for p in (VERIF_DIR, SHIMS_DIR, REPO_DIR):
        if p in sys.path:
            sys.path.remove(p)
    sys.path[0:0] = [REPO_DIR, SHIMS_DIR, VERIF_DIR]
    sys.dont_write_bytecode = True
    uuid.uuid4 = uuid_counter
    import logging

    logging.disable(logging.CRITICAL)
    import cirbo  # noqa: F401

    f = os.path.realpath(cirbo.__file__)
    if not f.startswith(os.path.realpath(REPO_DIR) + os.sep):
        raise SystemExit(f'harness error: cirbo imported from {f}, not {REPO_DIR}')
