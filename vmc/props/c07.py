"""C07 - summation generators compute exact sums within the promised basis and size.

Configurations (operand count / weight vector / basis spelling / endianness / host) are
enumerated exhaustively within the bounds; for each, all host input assignments are
evaluated bit-parallel by the reference model.
"""

import itertools

from vmc import arith, refmodel

ID = 'C07'

BASES = ['XAIG', 'AIG', 'str:XAIG', 'str:AIG', 'str:xaig', 'str:aig']


def basis_val(b):
    from cirbo.synthesis.generation.helpers import GenerationBasis

    if b.startswith('str:'):
        return b[4:]
    return getattr(GenerationBasis, b)


def is_aig(b):
    return b.split(':')[-1].upper() == 'AIG'


def folded_host(q, n):
    """q inputs; operand j is input j%q, negated copies on later rounds."""
    from cirbo.core.circuit import Circuit, gate as G

    c = Circuit()
    ins = [f'h{i}' for i in range(q)]
    c.add_inputs(ins)
    ops = []
    for j in range(n):
        rnd = j // q
        base = ins[j % q]
        if rnd == 0:
            ops.append(base)
        else:
            lab = f'f{j}'
            if rnd % 2 == 1:
                c.emplace_gate(lab, G.NOT, (base,))
            else:
                c.emplace_gate(lab, G.XOR, (base, ins[(j + 1) % q]))
            ops.append(lab)
    c.set_outputs(ops[:1])
    return c, ops


def hosts_for(n, which):
    """Yield (host tag, circuit, operand labels)."""
    for h in which:
        if h in ('H0', 'H1'):
            c, ops = arith.host(h, n)
            yield h, c, ops
        elif h == 'H2':
            c, pool = arith.host2(3)
            if n <= 3:
                for tup in itertools.product(pool, repeat=n):
                    c2, _ = arith.host2(3)
                    yield 'H2:' + ','.join(tup), c2, list(tup)
            else:
                for rot in (0, 3):
                    c2, _ = arith.host2(3)
                    yield f'H2:rot{rot}', c2, [pool[(j * 3 + rot) % len(pool)] for j in range(n)]
        elif h == 'SAT':
            if n <= 3:
                c, ops = arith.saturated_host(n, wide=n <= 4)
                yield 'SAT', c, ops
            if 2 <= n <= 4:
                c, ops = arith.decoy_host(n)
                yield 'DEC', c, ops
        elif h == 'ODD':
            if n <= 9:
                c, ops = arith.odd_label_host(n)
                yield 'ODD', c, ops
                c, ops = arith.live_host(n)
                yield 'LIVE', c, ops
                c, ops = arith.newlabel_host(n)
                yield 'NEWL', c, ops
            if 2 <= n <= 4:
                for flip in (False, True):
                    c, ops = arith.oriented_host(n, flip)
                    yield f'ORI{int(flip)}', c, ops
        elif h.startswith('F'):
            q = int(h[1:])
            c, ops = folded_host(q, n)
            yield h, c, ops


def common_checks(acc, sig, case, feats, c, before, n_ops, m_out, basis, bound):
    ok, net = arith.host_untouched(acc, sig, case, c, before, feats)
    if not ok:
        return None
    new = arith.new_gates(net, before)
    if basis is not None and is_aig(basis):
        bad = sorted({t for t, _ in new.values()} & {'XOR', 'NXOR'})
        if bad:
            acc.violation(f'{sig}/xor-in-aig-basis', case, f'{bad} among new gates', feats)
    if bound is not None and len(new) > bound + 1e-9:
        acc.violation(f'{sig}/gate-count-bound', case, f'{len(new)} new gates > bound {bound} (n={n_ops}, m={m_out})', feats)
    try:
        tabs = net.tables()
    except Exception as e:  # noqa: BLE001
        acc.violation(f'{sig}/result-not-evaluable', case, repr(e), feats)
        return None
    return net, tabs


def check_sum_n_bits(acc, n, basis, big_endian, htag, c, ops, via='add'):
    from cirbo.synthesis.generation.arithmetics import add_sum_n_bits

    case = {'fn': 'add_sum_n_bits', 'n': n, 'basis': basis, 'big_endian': big_endian, 'host': htag}
    feats = {'basis': basis, 'host': htag.split(':')[0]}
    acc.states += 1
    acc.traces += 1
    acc.transitions += 1
    before = arith.snapshot(c)
    try:
        ops_expected = list(ops)
        res = add_sum_n_bits(c, ops if htag == 'LIVE' else list(ops), basis=basis_val(basis), big_endian=big_endian)
        ops = ops_expected
    except Exception as e:  # noqa: BLE001
        acc.violation(f'add_sum_n_bits/raises-{type(e).__name__}', case, repr(e), feats)
        return
    m = len(res)
    bound = (7 * n - 3 * m) if is_aig(basis) else (4.5 * n - 2 * m)
    r = common_checks(acc, 'add_sum_n_bits', case, feats, c, before, n, m, basis, bound)
    if r is None:
        return
    net, tabs = r
    rows = 1 << len(net.inputs)
    opl = list(ops)[::-1] if big_endian else list(ops)
    want = arith.value_rows(tabs, [(l, 0) for l in opl], rows)
    got = arith.decode_rows(tabs, res, rows, big_endian)
    if got != want:
        j = next(i for i in range(rows) if got[i] != want[i])
        acc.violation('add_sum_n_bits/wrong-sum', case, f'row {j}: got {got[j]} expected {want[j]}', feats)
    acc.outcome('sum', ('n_bits', n, m, is_aig(basis)))


def check_generate_sum_n_bits(acc, n, basis, big_endian):
    from cirbo.synthesis.generation.arithmetics import generate_sum_n_bits

    case = {'fn': 'generate_sum_n_bits', 'n': n, 'basis': basis, 'big_endian': big_endian}
    feats = {'basis': basis}
    acc.states += 1
    acc.traces += 1
    acc.transitions += 1
    try:
        c = generate_sum_n_bits(n, basis=basis_val(basis), big_endian=big_endian)
    except Exception as e:  # noqa: BLE001
        acc.violation(f'generate_sum_n_bits/raises-{type(e).__name__}', case, repr(e), feats)
        return
    net = refmodel.abstract(c)
    if len(net.inputs) != n or refmodel.wellformed(c, deep=False):
        acc.violation('generate_sum_n_bits/shape', case, '', feats)
        return
    tabs = net.tables()
    rows = 1 << n
    want = arith.value_rows(tabs, [(l, 0) for l in net.inputs], rows)
    got = arith.decode_rows(tabs, net.outputs, rows, big_endian)
    if got != want:
        acc.violation('generate_sum_n_bits/wrong-sum', case, '', feats)
    if is_aig(basis) and {t for t, _ in net.gates.values()} & {'XOR', 'NXOR'}:
        acc.violation('generate_sum_n_bits/xor-in-aig-basis', case, '', feats)
    gates = len(net.gates) - n
    bound = (7 * n - 3 * len(net.outputs)) if is_aig(basis) else (4.5 * n - 2 * len(net.outputs))
    if gates > bound:
        acc.violation('generate_sum_n_bits/gate-count-bound', case, f'{gates} > {bound}', feats)
    # through the library's own evaluator for small n (ties to C01)
    if n <= 6:
        for j, x in enumerate(refmodel.assignments(n)):
            v = c.evaluate(list(x))
            bits = v[::-1] if big_endian else v
            if sum(int(b) << i for i, b in enumerate(bits)) != sum(x):
                acc.violation('generate_sum_n_bits/library-evaluation', case, f'x={x}', feats)
                break


def check_weighted(acc, weights, basis, naive, htag=None, c=None, ops=None):
    from cirbo.synthesis.generation.arithmetics import (
        add_sum_n_weighted_bits,
        add_sum_n_weighted_bits_naive,
        generate_sum_weighted_bits_efficient,
        generate_sum_weighted_bits_naive,
    )

    n = len(weights)
    fn = ('add_sum_n_weighted_bits_naive' if naive else 'add_sum_n_weighted_bits') if c is not None else (
        'generate_sum_weighted_bits_naive' if naive else 'generate_sum_weighted_bits_efficient')
    case = {'fn': fn, 'weights': list(weights), 'basis': basis, 'host': htag}
    feats = {'basis': basis, 'host': (htag or 'gen').split(':')[0]}
    acc.states += 1
    acc.traces += 1
    acc.transitions += 1
    try:
        if c is None:
            g = generate_sum_weighted_bits_naive if naive else generate_sum_weighted_bits_efficient
            c = g(list(weights), basis=basis_val(basis))
            net = refmodel.abstract(c)
            ops = net.inputs
            res = None
            before = None
        else:
            before = arith.snapshot(c)
            f = add_sum_n_weighted_bits_naive if naive else add_sum_n_weighted_bits
            res = f(c, [(w, l) for w, l in zip(weights, ops)], basis=basis_val(basis))
    except Exception as e:  # noqa: BLE001
        acc.violation(f'{fn}/raises-{type(e).__name__}', case, repr(e), feats)
        return
    if before is not None:
        levels = [lv for lv, _ in res]
        if len(set(levels)) != len(levels):
            acc.violation(f'{fn}/levels-not-distinct', case, str(res), feats)
            return
        m = len(res)
        bound = (7 * n - 3 * m) if is_aig(basis) else ((5 * n - 2 * m) if naive else (4.5 * n - 2 * m))
        r = common_checks(acc, fn, case, feats, c, before, n, m, basis, bound)
        if r is None:
            return
        net, tabs = r
        outs = [(l, lv) for lv, l in res]
    else:
        if refmodel.wellformed(c, deep=False) or len(net.inputs) != n:
            acc.violation(f'{fn}/shape', case, '', feats)
            return
        tabs = net.tables()
        if is_aig(basis) and {t for t, _ in net.gates.values()} & {'XOR', 'NXOR'}:
            acc.violation(f'{fn}/xor-in-aig-basis', case, '', feats)
        # the generate_* forms return only the output gates: the minimal number of outputs
        # with distinct levels must be able to represent the sum; levels are implied: the
        # outputs are in increasing level order, and the value identity must hold for SOME
        # strictly increasing level assignment -- the one the add_* form reports is checked
        # there; here: lowest possible levels starting at min(weights) is not implied, so
        # the check decodes with the levels recomputed by the add_* form on a fresh host.
        from cirbo.core.circuit import Circuit

        c2 = Circuit.bare_circuit(n)
        f = add_sum_n_weighted_bits_naive if naive else add_sum_n_weighted_bits
        res2 = f(c2, [(w, l) for w, l in zip(weights, c2.inputs)], basis=basis_val(basis))
        if len(res2) != len(net.outputs):
            acc.violation(f'{fn}/output-count-differs-from-add-form', case, '', feats)
            return
        outs = [(o, lv) for o, (lv, _) in zip(net.outputs, res2)]
        m = len(net.outputs)
        gates = len(net.gates) - n
        bound = (7 * n - 3 * m) if is_aig(basis) else ((5 * n - 2 * m) if naive else (4.5 * n - 2 * m))
        if gates > bound:
            acc.violation(f'{fn}/gate-count-bound', case, f'{gates} > {bound}', feats)
    rows = 1 << len(net.inputs)
    want = arith.value_rows(tabs, [(l, w) for l, w in zip(ops, weights)], rows)
    got = arith.value_rows(tabs, outs, rows)
    if got != want:
        j = next(i for i in range(rows) if got[i] != want[i])
        acc.violation(f'{fn}/wrong-sum', case, f'row {j}: got {got[j]} expected {want[j]}; result {outs}', feats)
    acc.outcome('sum', ('weighted', naive, tuple(sorted(weights)), is_aig(basis)))


def check_two_numbers(acc, na, nb, shift, big_endian, htag, c, ops):
    from cirbo.synthesis.generation.arithmetics import add_sum_two_numbers, add_sum_two_numbers_with_shift

    fn = 'add_sum_two_numbers' if shift is None else 'add_sum_two_numbers_with_shift'
    case = {'fn': fn, 'na': na, 'nb': nb, 'shift': shift, 'big_endian': big_endian, 'host': htag}
    feats = {'host': htag.split(':')[0], 'shift_ge_len_a': shift is not None and shift >= na}
    acc.states += 1
    acc.traces += 1
    acc.transitions += 1
    a, b = list(ops[:na]), list(ops[na:na + nb])
    before = arith.snapshot(c)
    try:
        if shift is None:
            res = add_sum_two_numbers(c, a, b, big_endian=big_endian)
        else:
            res = add_sum_two_numbers_with_shift(c, shift, a, b, big_endian=big_endian)
    except Exception as e:  # noqa: BLE001
        acc.violation(f'{fn}/raises-{type(e).__name__}', case, repr(e), feats)
        return
    r = common_checks(acc, fn, case, feats, c, before, na + nb, len(res), None, None)
    if r is None:
        return
    net, tabs = r
    missing = [l for l in res if l not in net.gates]
    if missing:
        acc.violation(f'{fn}/result-label-is-not-a-gate', case, str(missing), feats)
        return
    rows = 1 << len(net.inputs)
    va = arith.decode_rows(tabs, a, rows, big_endian)
    vb = arith.decode_rows(tabs, b, rows, big_endian)
    got = arith.decode_rows(tabs, res, rows, big_endian)
    sh = shift or 0
    for j in range(rows):
        if got[j] != va[j] + (vb[j] << sh):
            acc.violation(f'{fn}/wrong-sum', case, f'row {j}: a={va[j]} b={vb[j]} got {got[j]}', feats)
            break
    acc.outcome('sum', (fn, na, nb, shift))


def check_pow2_m1(acc, n, basis, big_endian, htag, c, ops):
    from cirbo.synthesis.generation.arithmetics import add_sum_pow2_m1

    case = {'fn': 'add_sum_pow2_m1', 'n': n, 'basis': basis, 'big_endian': big_endian, 'host': htag}
    feats = {'basis': basis, 'host': htag.split(':')[0]}
    acc.states += 1
    acc.traces += 1
    acc.transitions += 1
    before = arith.snapshot(c)
    try:
        ops_expected = list(ops)
        res = add_sum_pow2_m1(c, ops if htag == 'LIVE' else list(ops), big_endian=big_endian, basis=basis_val(basis))
        ops = ops_expected
    except Exception as e:  # noqa: BLE001
        acc.violation(f'add_sum_pow2_m1/raises-{type(e).__name__}', case, repr(e), feats)
        return
    r = common_checks(acc, 'add_sum_pow2_m1', case, feats, c, before, n, len(res), basis, None)
    if r is None:
        return
    net, tabs = r
    rows = 1 << len(net.inputs)
    want = arith.value_rows(tabs, [(l, 0) for l in ops], rows)
    got = arith.value_rows(tabs, [(l, k) for k, lev in enumerate(res) for l in lev], rows)
    if len(res[0]) != 1:
        acc.violation('add_sum_pow2_m1/level0-not-single', case, str(res[0]), feats)
    if got != want:
        j = next(i for i in range(rows) if got[i] != want[i])
        acc.violation('add_sum_pow2_m1/wrong-sum', case, f'row {j}: got {got[j]} expected {want[j]}', feats)
    acc.outcome('sum', ('pow2_m1', n, is_aig(basis)))


def check_small_blocks(acc):
    from cirbo.synthesis.generation.arithmetics import add_sum2, add_sum3, add_sum_n_bits_easy
    import cirbo.synthesis.generation.arithmetics as A

    for nm, mk in (
        ('generate_sum_n_bits', lambda: A.generate_sum_n_bits(5)),
        ('generate_sum_n_bits(aig)', lambda: A.generate_sum_n_bits(4, basis='aig', big_endian=True)),
        ('generate_sum_weighted_bits_efficient', lambda: A.generate_sum_weighted_bits_efficient([0, 1, 1, 3])),
        ('generate_sum_weighted_bits_naive', lambda: A.generate_sum_weighted_bits_naive([2, 0, 0, 1], basis='AIG')),
    ):
        acc.states += 1
        acc.traces += 1
        arith.fresh_generator_check(acc, nm, mk)

    for k, fn in ((2, add_sum2), (3, add_sum3)):
        for htag, c, ops in hosts_for(k, ('H0', 'H1', 'H2')):
            acc.states += 1
            acc.traces += 1
            acc.transitions += 1
            case = {'fn': fn.__name__, 'host': htag}
            before = arith.snapshot(c)
            try:
                res = fn(c, list(ops))
            except Exception as e:  # noqa: BLE001
                acc.violation(f'{fn.__name__}/raises', case, repr(e))
                continue
            r = common_checks(acc, fn.__name__, case, {}, c, before, k, 2, None, None)
            if r is None:
                continue
            net, tabs = r
            rows = 1 << len(net.inputs)
            if arith.decode_rows(tabs, res, rows) != arith.value_rows(tabs, [(l, 0) for l in ops], rows):
                acc.violation(f'{fn.__name__}/wrong-sum', case, '')
    for n in range(1, 9):
        for be in (False, True):
            for htag, c, ops in hosts_for(n, ('H0', 'H1')):
                acc.states += 1
                acc.traces += 1
                acc.transitions += 1
                case = {'fn': 'add_sum_n_bits_easy', 'n': n, 'big_endian': be, 'host': htag}
                before = arith.snapshot(c)
                try:
                    res = add_sum_n_bits_easy(c, list(ops), big_endian=be)
                except Exception as e:  # noqa: BLE001
                    acc.violation('add_sum_n_bits_easy/raises', case, repr(e))
                    continue
                r = common_checks(acc, 'add_sum_n_bits_easy', case, {}, c, before, n, len(res), None, None)
                if r is None:
                    continue
                net, tabs = r
                rows = 1 << len(net.inputs)
                if arith.decode_rows(tabs, res, rows, be) != arith.value_rows(tabs, [(l, 0) for l in ops], rows):
                    acc.violation('add_sum_n_bits_easy/wrong-sum', case, '')
    acc.sample({'fn': 'add_sum3', 'host': 'H2:e0,e0,h1'})


def VARIANT_PRED(t, v):
    if v != 'deepcopy':
        return False
    k = t.get('kind')
    return k == 'blocks' or (k == 'nbits' and t['n'] <= 5) or (k == 'weighted' and t['n'] <= 2) or (k == 'two' and t['na'] + t['nb'] <= 4) or (k == 'pow2' and t['n'] <= 4)


def plan(tier):
    t = [{'kind': 'blocks'}]
    N = 14 if tier == 'quick' else 16
    for n in range(1, N + 1):
        t.append({'kind': 'nbits', 'n': n})
    if tier == 'thorough':
        for n in (17, 18):
            t.append({'kind': 'nbits', 'n': n, 'lite': True})
    for n in range(1, 6):
        for first in range(4):
            t.append({'kind': 'weighted', 'n': n, 'first': first, 'alpha': 4})
    if tier == 'thorough':
        for first in range(3):
            t.append({'kind': 'weighted', 'n': 6, 'first': first, 'alpha': 3})
    for n in range(6 if tier == 'quick' else 7, (9 if tier == 'quick' else 11)):
        for first in range(2):
            t.append({'kind': 'weighted', 'n': n, 'first': first, 'alpha': 2})
    for n in (11, 12) if tier == 'quick' else (11, 12, 13, 14):
        t.append({'kind': 'weightedwide', 'n': n})
    for base in (7, 255, 256, 257, 300, 1000, 70000):
        t.append({'kind': 'levels', 'base': base})
    L = 5 if tier == 'quick' else 7
    S = 7 if tier == 'quick' else 9
    for na in range(1, L + 1):
        for nb in range(1, L + 1):
            t.append({'kind': 'two', 'na': na, 'nb': nb, 'S': S})
    P = 30 if tier == 'quick' else 48
    for n in range(1, P + 1):
        t.append({'kind': 'pow2', 'n': n})
    return t


def describe(tier):
    return {
        'rule': 'configurations: add_sum_n_bits/generate_sum_n_bits (n, 6 basis spellings, endianness, hosts H0 fresh inputs / H1 '
        'IFF-NOT copies / SAT a host that already contains every two-operand gate over the operands in both operand orders / ODD inputs with unusual labels (empty string, generated-looking names) / H2 host with gates, outputs, block and every operand tuple with repeats (n<=3) or two rotations); '
        'weighted sums efficient+naive (every weight vector over {0..3}^n resp. {0,1}^n, 6 basis spellings, generate_* and add_* on '
        'H0/H1/H2); add_sum_two_numbers(_with_shift) (all widths and shifts incl. shift>=len(a), both endiannesses, H0/H1); '
        'add_sum_pow2_m1 (n, bases, endianness; all 2^n values for n<=12, folded 12-input host above); add_sum2/3/easy. For each: '
        'all host input assignments, value identity, distinct levels, fresh gates only, host untouched, no XOR/NXOR in AIG, '
        'documented gate-count bound. distinct = distinct configuration classes.',
        'bounds': {'quick': 'n_bits n<=14; weights {0..3}^n n<=5, {0,1}^n n<=8; adders widths<=5, shift<=7; pow2_m1 n<=30',
                   'thorough': 'n_bits n<=16 (+17, 18 H0 XAIG/AIG); weights {0..3}^n n<=5, {0,1,2}^6, {0,1}^n n<=10 (plain and non-input hosts from 6 operands on); adders widths<=7, shift<=9; pow2_m1 n<=48'}[tier],
        'exhaustive': True,
        'assumptions': ['vmc.refmodel evaluator; for hosts H2/folded the operand values are those reachable from the host inputs (stated alphabet)'],
    }


def probe():
    from cirbo.synthesis.generation.arithmetics import generate_sum_n_bits

    from vmc import boot

    boot.uuid_counter.reset()
    return refmodel.abstract(generate_sum_n_bits(3)).to_json()


def run_task(task, acc):
    from vmc import boot

    boot.uuid_counter.reset()
    k = task['kind']
    if k == 'blocks':
        return check_small_blocks(acc)
    if k == 'nbits':
        n = task['n']
        bases = ['XAIG', 'AIG'] if task.get('lite') else BASES
        for b in bases:
            for be in (False, True):
                check_generate_sum_n_bits(acc, n, b, be)
                hs = ('H0',) if task.get('lite') else (('H0', 'H1', 'H2', 'SAT', 'ODD') if n <= 10 else ('H0', 'H2'))
                for htag, c, ops in hosts_for(n, hs):
                    if htag.startswith('H2') and b not in ('XAIG', 'str:aig') and n <= 3:
                        continue
                    check_sum_n_bits(acc, n, b, be, htag, c, ops)
        acc.sample({'fn': 'add_sum_n_bits', 'n': n, 'basis': 'str:aig', 'big_endian': True, 'host': 'H1'})
        return
    if k == 'weighted':
        n = task['n']
        for rest in itertools.product(range(task['alpha']), repeat=n - 1):
            w = (task['first'],) + rest
            for b in BASES:
                for naive in (False, True):
                    check_weighted(acc, w, b, naive)
                    if b in ('XAIG', 'AIG', 'str:AIG'):
                        for htag, c, ops in hosts_for(n, ('H0', 'H1') if n >= 6 else ('H0', 'H1', 'SAT', 'ODD') if n > 2 else ('H0', 'H1', 'H2', 'SAT', 'ODD')):
                            check_weighted(acc, w, b, naive, htag, c, ops)
        acc.sample({'fn': 'add_sum_n_weighted_bits', 'weights': [task['first']] * n, 'basis': 'str:AIG', 'host': 'H1'})
        return
    if k == 'weightedwide':
        # 11 and more operands (two-digit positions) with non-uniform weights, circuit-level generators and hosts
        n = task['n']
        vecs = [tuple(i % 4 for i in range(n)), tuple(3 - i % 4 for i in range(n)), tuple(i % 2 for i in range(n)),
                tuple(1 if i < n - 1 else 0 for i in range(n)), tuple((i * 7) % 5 for i in range(n))]
        for w in vecs:
            for b in ('XAIG', 'AIG'):
                for naive in (False, True):
                    check_weighted(acc, w, b, naive)
                    c, ops = arith.host('H0', n)
                    check_weighted(acc, w, b, naive, 'H0', c, ops)
        return
    if k == 'levels':
        # weight levels around and beyond 256 (several operands on one level, carries into the next)
        base = task['base']
        vecs = [(base,) * 4 + (base + 1,), (base,) * 5 + (base + 1,) * 2, (base, base + 1, base + 2, base, base),
                (base,) * 3 + (base + 2,) * 3, (0, base, base, base, base)]
        for w in vecs:
            for b in ('XAIG', 'AIG'):
                for naive in (False, True):
                    for h in ('H0', 'H1'):
                        c, ops = arith.host(h, len(w))
                        check_weighted(acc, w, b, naive, h, c, ops)
        return
    if k == 'two':
        na, nb = task['na'], task['nb']
        for be in (False, True):
            for h in ('H0', 'H1', 'ODD', 'SAT'):
                if h == 'SAT' and na + nb > 3:
                    continue
                if h == 'ODD' and na + nb > 9:
                    continue

                def mk(h=h):
                    if h == 'ODD':
                        return arith.odd_label_host(na + nb)
                    if h == 'SAT':
                        return arith.saturated_host(na + nb, wide=True)
                    return arith.host(h, na + nb)

                c, ops = mk()
                check_two_numbers(acc, na, nb, None, be, h, c, ops)
                for sh in range(0, task['S'] + 1):
                    c, ops = mk()
                    check_two_numbers(acc, na, nb, sh, be, h, c, ops)
        acc.sample({'fn': 'add_sum_two_numbers_with_shift', 'na': na, 'nb': nb, 'shift': na + 1, 'big_endian': False, 'host': 'H0'})
        return
    if k == 'pow2':
        n = task['n']
        for b in ('XAIG', 'AIG', 'str:aig'):
            for be in (False, True):
                hs = ('H0', 'H1') if n <= 10 else (('H0',) if n <= 12 else ('F12',))
                for htag, c, ops in hosts_for(n, hs):
                    check_pow2_m1(acc, n, b, be, htag, c, ops)
                if n <= 6:
                    for htag, c, ops in hosts_for(n, ('H2',)):
                        check_pow2_m1(acc, n, b, be, htag, c, ops)
        acc.sample({'fn': 'add_sum_pow2_m1', 'n': n, 'basis': 'AIG', 'big_endian': False, 'host': 'H0'})


def replay(case, acc):
    from vmc import boot

    boot.uuid_counter.reset()
    if 'task' in case:
        return run_task(case['task'], acc)
    fn = case['fn']
    ht = case.get('host')

    def get_host(n):
        if ht is None:
            return None, None, None
        base = ht.split(':')[0]
        for htag, c, ops in hosts_for(n, (base,)):
            if htag == ht:
                return htag, c, ops
        raise KeyError(ht)

    if fn == 'add_sum_n_bits':
        htag, c, ops = get_host(case['n'])
        return check_sum_n_bits(acc, case['n'], case['basis'], case['big_endian'], htag, c, ops)
    if fn == 'generate_sum_n_bits':
        return check_generate_sum_n_bits(acc, case['n'], case['basis'], case['big_endian'])
    if 'weights' in case:
        naive = 'naive' in fn
        if ht is None:
            return check_weighted(acc, tuple(case['weights']), case['basis'], naive)
        htag, c, ops = get_host(len(case['weights']))
        return check_weighted(acc, tuple(case['weights']), case['basis'], naive, htag, c, ops)
    if fn.startswith('add_sum_two_numbers'):
        htag, c, ops = get_host(case['na'] + case['nb'])
        return check_two_numbers(acc, case['na'], case['nb'], case['shift'], case['big_endian'], htag, c, ops)
    if fn == 'add_sum_pow2_m1':
        htag, c, ops = get_host(case['n'])
        return check_pow2_m1(acc, case['n'], case['basis'], case['big_endian'], htag, c, ops)
    return check_small_blocks(acc)
