"""C03 - simplification passes preserve the function, the interface and their argument.

E1 over F(n,k,A) x output policies x transformers (five pass instances, cleanup light and
heavy, every two-pass pipe a|b); oracle: reference truth table row by row, interface
lists, argument abstraction unchanged, size not larger, result well formed.
"""

from vmc import refmodel, space
from vmc.engine import guarded

ID = 'C03'

UNARY_FAMILY = space.alphabet('NOT', 'IFF', 'LNOT', 'RNOT', 'LIFF', 'RIFF', 'AND', 'GT')
UNARY4 = space.alphabet('NOT', 'IFF', 'LNOT', 'RIFF', 'AND')
CHAIN = space.alphabet('NOT', 'LNOT', 'IFF')
CHAIN1 = space.alphabet('NOT', 'IFF')
ALPHAS = {'CHAIN1': CHAIN1, 'CHAIN': CHAIN, 'FULL': space.FULL, 'FULL_NO3': space.FULL_NO3, 'UNARY': UNARY_FAMILY, 'UNARY4': UNARY4}


def singles():
    from cirbo.minimization.simplification import (
        MergeDuplicateGates,
        MergeEquivalentGates,
        MergeUnaryOperators,
        RemoveRedundantGates,
    )

    return [
        ('RRG', RemoveRedundantGates()),
        ('RRGi', RemoveRedundantGates(allow_inputs_removal=True)),
        ('MUO', MergeUnaryOperators()),
        ('MDG', MergeDuplicateGates()),
        ('MEG', MergeEquivalentGates()),
    ]


_T = None


def transformers():
    """name -> (callable(circuit) -> circuit, removes_inputs)"""
    global _T
    if _T is None:
        from cirbo.minimization.simplification import cleanup

        s = singles()
        t = {}
        for name, tr in s:
            t[name] = (tr.transform, name == 'RRGi')
        t['cleanup'] = (lambda c: cleanup(c), False)
        t['cleanupH'] = (lambda c: cleanup(c, use_heavy=True), False)
        for na, a in s:
            for nb, b in s:
                comp = a | b
                t[f'{na}|{nb}'] = (comp.transform, 'RRGi' in (na, nb))
        _T = t
    return _T


SINGLE_NAMES = ('RRG', 'RRGi', 'MUO', 'MDG', 'MEG', 'cleanup', 'cleanupH')


def core_policies(n, k, gates):
    p = n + k
    pol = [()] + [(i,) for i in range(p)]
    if p:
        last = p - 1
        pol += [(last, last), (last, 0), (0, last)]
    s = tuple(space.sinks(n, gates))
    if s not in pol:
        pol.append(s)
    return list(dict.fromkeys(pol))


def plan(tier):
    t = []

    def fam(n, k, a, split, tnames, pol):
        for tk in space.tasks(n, k, ALPHAS[a], split):
            tk.update(alpha=a, tnames=tnames, pol=pol)
            t.append(tk)

    fam(0, 1, 'FULL', 0, 'all', 'all')
    fam(1, 1, 'FULL', 0, 'all', 'all')
    fam(1, 2, 'FULL', 1, 'all', 'all')
    fam(2, 1, 'FULL', 1, 'all', 'all')
    fam(2, 2, 'FULL', 1, 'single', 'core' if tier == 'quick' else 'all')
    fam(3, 1, 'FULL', 1, 'single', 'all')
    fam(1, 4, 'CHAIN', 2, 'unary', 'last')
    for k in (5, 6):
        fam(1, k, 'CHAIN1', 2, 'unary', 'last')
    fam(2, 3, 'UNARY', 2, 'unary', 'last' if tier == 'quick' else 'core')
    if tier == 'thorough':
        fam(2, 2, 'FULL', 1, 'pairs', 'core')
        fam(3, 2, 'FULL', 1, 'single', 'core')
        fam(2, 3, 'FULL_NO3', 2, 'single', 'last')
        fam(2, 4, 'UNARY4', 2, 'unary', 'last')
    return t


def describe(tier):
    return {
        'rule': 'E1: every circuit of F(n,k,A) (for n+k<=3 and the unary/chain families also with reversed, non-topological storage order) x output policy (none, sequences of <=2 nodes incl. '
        'inputs/repeats, all sinks; "core" = none, each single node, (last,last),(last,x0),(x0,last), sinks) '
        'x transformer (RRG, RRG(allow_inputs_removal), MergeUnary, MergeDuplicate, MergeEquivalent, '
        'cleanup light/heavy, all 25 two-pass pipes a|b). A case = (circuit, outputs, transformer); '
        'distinct = distinct (transformer, result shape) outcomes.',
        'bounds': {
            'quick': 'singles+cleanup: F(0..2,<=2,FULL) (F(2,2): core policies), F(3,1,FULL) all policies; pairs: F(n,k,FULL) with n+k<=3; '
            'unary family F(2,3,{NOT,IFF,LNOT,RNOT,LIFF,RIFF,AND,GT}) and chains F(1,4,{NOT,LNOT,IFF}), F(1,5..6,{NOT,IFF}) with MUO/cleanup pipes, last-gate output',
            'thorough': '+ F(2,2,FULL) all policies, unary family k=3 core policies; pairs on F(2,2,FULL) core policies; singles on F(3,2,FULL) core policies, F(2,3,FULL\\S3) last-gate output; '
            'unary family k=4 over {NOT,IFF,LNOT,RIFF,AND} (last-gate output)',
        }[tier],
        'exhaustive': True,
        'assumptions': ['vmc.refmodel evaluator; Circuit accessors used by abstract() are faithful (tied by C01/C02)'],
    }


def probe():
    c = space.build(2, (('NOT', (0,)), ('NOT', (2,)), ('AND', (3, 1))), (4, 4))
    out = []
    for name in SINGLE_NAMES:
        r = transformers()[name][0](c)
        out.append([name, refmodel.abstract(r).to_json()])
    return out


def check_one(n, gates, outs, tname, acc, c=None, net=None, ref=None, storage=None):
    fn, removes = transformers()[tname]
    labs = space.labels(n, len(gates))
    if c is None:
        c = space.build(n, gates, outs)
        net = space.spec_net(n, gates, outs)
        ref = net.tables()
    if storage == 'scrambled' and c is not None and net is None:
        pass
    case = lambda: {**space.spec_json(n, gates, outs), 'transformer': tname, 'storage': storage}  # noqa: E731
    before = refmodel.abstract(c).key()
    users_before = refmodel.users_snapshot(c)
    acc.transitions += 1
    acc.traces += 1
    ok, r = guarded(acc, f'{tname}', case, fn, c)
    if not ok:
        return
    if r is c:
        acc.violation(f'{tname}/returns-argument-object', case, '')
    if refmodel.abstract(c).key() != before or refmodel.users_snapshot(c) != users_before:
        acc.violation(f'{tname}/argument-modified', case, f'after: {refmodel.abstract(c).to_json()}')
        # rebuild so that later transformers see the intended circuit
        c.__init__()
        c2 = space.build(n, gates, outs)
        if storage == 'scrambled':
            space.scramble_storage(c2)
        c.__dict__.update(c2.__dict__)
    try:
        rnet = refmodel.abstract(r)
        rin, rout = rnet.inputs, rnet.outputs
    except Exception as e:  # noqa: BLE001
        acc.violation(f'{tname}/result-unreadable', case, repr(e))
        return
    # interface
    olabs = net.outputs
    if removes:
        reach = net.reach_back(olabs)
        # a single RRG(allow_inputs_removal) must keep exactly the reachable inputs; inside a
        # pipe, reachability is relative to the intermediate circuit (an earlier pass may
        # legitimately disconnect an input the function does not depend on), so only the
        # subsequence property is required here and the function check below does the rest
        must = [i for i in net.inputs if i in reach] if tname == 'RRGi' else []
        it = iter(net.inputs)
        subseq = all(any(x == y for y in it) for x in rin)
        if not subseq or any(m not in rin for m in must):
            acc.violation(f'{tname}/inputs', case, f'result inputs {rin}, reachable {must}')
            return
    else:
        if rin != net.inputs:
            acc.violation(f'{tname}/inputs', case, f'result inputs {rin} expected {net.inputs}')
            return
    if len(rout) != len(olabs):
        acc.violation(f'{tname}/output-count', case, f'{rout} vs {olabs}')
        return
    probs = refmodel.wellformed(r)
    if probs:
        acc.violation(f'{tname}/result-ill-formed', case, probs[:3])
        return
    # function: evaluate the result over the argument's assignment space
    nn = len(net.inputs)
    iv = refmodel.input_vectors_cached(nn)
    mask = (1 << (1 << nn)) - 1
    pos = {l: i for i, l in enumerate(net.inputs)}
    try:
        rt = rnet.tables([iv[pos[l]] for l in rin], mask)
    except Exception as e:  # noqa: BLE001
        acc.violation(f'{tname}/result-not-evaluable', case, repr(e))
        return
    got = [rt[o] for o in rout]
    exp = [ref[o] for o in olabs]
    if got != exp:
        acc.violation(
            f'{tname}/function-changed',
            case,
            f'expected {[refmodel.tt_str(v, nn) for v in exp]} got {[refmodel.tt_str(v, nn) for v in got]} '
            f'result={rnet.to_json()}',
        )
    if rnet.size() > net.size():
        acc.violation(f'{tname}/result-larger', case, f'{rnet.size()} > {net.size()}')
    acc.outcome('shape', (tname, rnet.size(), len(rin), len(rout)))


def check_circuit(n, gates, acc, tnames, pol, scramble=False):
    k = len(gates)
    if pol == 'all':
        pols = space.output_policies(n, k, 2, gates=gates)
    elif pol == 'core':
        pols = core_policies(n, k, gates)
    else:
        pols = [(n + k - 1,)] if n + k else [()]
    labs = space.labels(n, k)
    net0 = space.spec_net(n, gates)
    ref = net0.tables()
    c = space.build(n, gates)
    for outs in pols:
        acc.states += 1
        c.set_outputs([labs[o] for o in outs])
        net = refmodel.Net(net0.inputs, [labs[o] for o in outs], net0.gates)
        for tname in tnames:
            check_one(n, gates, outs, tname, acc, c, net, ref)
        if scramble:
            c2 = space.scramble_storage(space.build(n, gates, outs))
            for tname in tnames:
                check_one(n, gates, outs, tname, acc, c2, net, ref, storage='scrambled')
    acc.sample({**space.spec_json(n, gates, pols[-1]), 'transformers': list(tnames)[:8]})


def _tnames(sel):
    if sel == 'single':
        return SINGLE_NAMES
    if sel == 'unary':
        return ('MUO', 'cleanup', 'MUO|MDG', 'MUO|MUO')
    if sel == 'pairs':
        return tuple(k for k in transformers() if '|' in k)
    return tuple(transformers())


def run_task(task, acc):
    alpha = ALPHAS[task['alpha']]
    tn = _tnames(task['tnames'])
    scramble = task['tnames'] == 'unary' or task['n'] + task['k'] <= 3
    for gates in space.enum_gates(task['n'], task['k'], alpha, space.prefix_from_task(task)):
        check_circuit(task['n'], gates, acc, tn, task['pol'], scramble)


def replay(case, acc):
    if 'task' in case:
        return run_task(case['task'], acc)
    n, gates, outs = space.spec_from_json(case)
    if case.get('storage') == 'scrambled':
        c = space.scramble_storage(space.build(n, gates, outs))
        net = space.spec_net(n, gates, outs)
        return check_one(n, gates, outs, case['transformer'], acc, c, net, net.tables(), storage='scrambled')
    check_one(n, gates, outs, case['transformer'], acc)
