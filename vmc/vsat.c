/* vsat.c - the same complete DPLL procedure as vmc/vsat.py (two watched literals,
 * chronological backtracking, total models), in C for the UNSAT proofs of exact
 * synthesis.  Built by tools/setup.sh:  gcc -O2 -shared -fPIC -o build/libvsat.so vmc/vsat.c
 *
 * int vsat_solve(int nvars, int nclauses, const int *lits, const int *order, int phase,
 *                int *model_out)
 *   lits: clauses flattened, each terminated by 0.  order: nvars decision variables (or NULL
 *   for 1..nvars).  phase: 0 = try false first, 1 = true first.  model_out: nvars signed ints.
 *   returns 1 (SAT, model written), 0 (UNSAT), -1 (allocation failure).
 */
#include <stdlib.h>
#include <string.h>

typedef struct { int *data; int size, cap; } vec;

static int vec_push(vec *v, int x) {
    if (v->size == v->cap) {
        int nc = v->cap ? v->cap * 2 : 4;
        int *nd = (int *)realloc(v->data, sizeof(int) * nc);
        if (!nd) return 0;
        v->data = nd; v->cap = nc;
    }
    v->data[v->size++] = x;
    return 1;
}

#define LI(l) ((l) > 0 ? 2 * (l) : -2 * (l) + 1)

int vsat_solve(int nvars, int nclauses, const int *lits, const int *order_in, int phase, int *model_out) {
    int result = -1;
    signed char *val = (signed char *)calloc(nvars + 2, 1);
    vec *watches = (vec *)calloc(2 * nvars + 4, sizeof(vec));
    int **cls = (int **)calloc(nclauses + 1, sizeof(int *));
    int *clen = (int *)calloc(nclauses + 1, sizeof(int));
    int *store = NULL;
    int *trail = (int *)malloc(sizeof(int) * (nvars + 2));
    int *order = (int *)malloc(sizeof(int) * (nvars + 2));
    /* decision stack */
    int *st_tl = (int *)malloc(sizeof(int) * (nvars + 2));
    int *st_lit = (int *)malloc(sizeof(int) * (nvars + 2));
    int *st_flip = (int *)malloc(sizeof(int) * (nvars + 2));
    int *st_pos = (int *)malloc(sizeof(int) * (nvars + 2));
    int *units = NULL;
    int nunits = 0, ncls = 0, ntrail = 0, qhead = 0, nst = 0, pos = 0, norder = 0;
    int total = 0, i, j, k;
    unsigned char *seen = NULL;
    if (!val || !watches || !cls || !clen || !trail || !order || !st_tl || !st_lit || !st_flip || !st_pos) goto done;

    /* count literals */
    {
        const int *p = lits; int c = 0;
        while (c < nclauses) { if (*p == 0) c++; p++; total++; }
    }
    store = (int *)malloc(sizeof(int) * (total + 1));
    units = (int *)malloc(sizeof(int) * (nclauses + 1));
    seen = (unsigned char *)calloc(2 * nvars + 4, 1);
    if (!store || !units || !seen) goto done;

    /* load clauses: remove duplicate literals, drop tautologies */
    {
        const int *p = lits; int *w = store; int c;
        for (c = 0; c < nclauses; c++) {
            int *start = w; int taut = 0; int len = 0;
            while (*p) {
                int l = *p++;
                if (seen[LI(-l)]) taut = 1;
                if (!seen[LI(l)]) { seen[LI(l)] = 1; *w++ = l; len++; }
            }
            p++;
            for (i = 0; i < len; i++) seen[LI(start[i])] = 0;
            if (taut) { w = start; continue; }
            if (len == 0) { result = 0; goto done; }
            if (len == 1) { units[nunits++] = start[0]; w = start; continue; }
            cls[ncls] = start; clen[ncls] = len;
            if (!vec_push(&watches[LI(start[0])], ncls)) goto done;
            if (!vec_push(&watches[LI(start[1])], ncls)) goto done;
            ncls++;
        }
    }

#define VALUE(l) ((l) > 0 ? val[(l)] : -val[-(l)])
#define ASSIGN(l) do { val[(l) > 0 ? (l) : -(l)] = (l) > 0 ? 1 : -1; trail[ntrail++] = (l); } while (0)

    for (i = 0; i < nunits; i++) {
        int l = units[i];
        if (VALUE(l) == -1) { result = 0; goto done; }
        if (VALUE(l) == 0) ASSIGN(l);
    }

    /* decision order */
    {
        unsigned char *inorder = (unsigned char *)calloc(nvars + 2, 1);
        if (!inorder) goto done;
        if (order_in) {
            for (i = 0; i < nvars; i++) {
                int v = order_in[i];
                if (v >= 1 && v <= nvars && !inorder[v]) { inorder[v] = 1; order[norder++] = v; }
            }
        }
        for (i = 1; i <= nvars; i++) if (!inorder[i]) order[norder++] = i;
        free(inorder);
    }

    for (;;) {
        /* propagate */
        int conflict = 0;
        while (qhead < ntrail) {
            int l = trail[qhead++];
            int fl = -l;
            vec *wl = &watches[LI(fl)];
            int n = wl->size;
            i = 0; j = 0;
            while (i < n) {
                int ci = wl->data[i++];
                int *c = cls[ci];
                int len = clen[ci];
                int f, vf, found = 0;
                if (c[0] == fl) { int t = c[0]; c[0] = c[1]; c[1] = t; }
                f = c[0];
                vf = VALUE(f);
                if (vf == 1) { wl->data[j++] = ci; continue; }
                for (k = 2; k < len; k++) {
                    int lk = c[k];
                    if (VALUE(lk) != -1) {
                        c[1] = lk; c[k] = fl;
                        if (!vec_push(&watches[LI(lk)], ci)) goto done;
                        found = 1;
                        break;
                    }
                }
                if (found) continue;
                wl->data[j++] = ci;
                if (vf == 0) {
                    ASSIGN(f);
                } else {
                    conflict = 1;
                    while (i < n) wl->data[j++] = wl->data[i++];
                    break;
                }
            }
            wl->size = j;
            if (conflict) break;
        }
        if (conflict) {
            /* chronological backtracking: flip the deepest unflipped decision */
            while (nst > 0 && st_flip[nst - 1]) {
                nst--;
                while (ntrail > st_tl[nst]) { int l = trail[--ntrail]; val[l > 0 ? l : -l] = 0; }
            }
            if (nst == 0) { result = 0; goto done; }
            nst--;
            while (ntrail > st_tl[nst]) { int l = trail[--ntrail]; val[l > 0 ? l : -l] = 0; }
            {
                int d = -st_lit[nst];
                st_lit[nst] = d; st_flip[nst] = 1;
                pos = st_pos[nst];
                nst++;
                ASSIGN(d);
                qhead = ntrail - 1;
            }
            continue;
        }
        while (pos < norder && val[order[pos]] != 0) pos++;
        if (pos >= norder) {
            for (i = 1; i <= nvars; i++) model_out[i - 1] = val[i] > 0 ? i : -i;
            result = 1;
            goto done;
        }
        {
            int v = order[pos];
            int d = phase ? v : -v;
            st_tl[nst] = ntrail; st_lit[nst] = d; st_flip[nst] = 0; st_pos[nst] = pos; nst++;
            ASSIGN(d);
            qhead = ntrail - 1;
        }
    }

done:
    if (watches) { for (i = 0; i < 2 * nvars + 4; i++) free(watches[i].data); free(watches); }
    free(val); free(cls); free(clen); free(store); free(trail); free(order);
    free(st_tl); free(st_lit); free(st_flip); free(st_pos); free(units); free(seen);
    return result;
}
