#!/usr/bin/env python3
"""Regenerate /verif/MANIFEST.json from the table below (kept valid at all times)."""
import json
import os

HERE = os.path.dirname(os.path.dirname(os.path.abspath(__file__)))

# property id -> (technique, level text, level note, design ref)
CHECKS = {}
NOT_YET = {}


def add(pid, technique, text, note, ref):
    CHECKS[pid] = (technique, text, note, ref)


exec(open(os.path.join(HERE, 'tools', 'manifest_table.py')).read())

props = [json.loads(l)['id'] for l in open(os.path.join(HERE, 'properties.jsonl'))]
checks = []
for pid in props:
    if pid not in CHECKS:
        continue
    technique, text, note, ref = CHECKS[pid]
    checks.append(
        {
            'property_id': pid,
            'quick_cmd': f'./check {pid} --tier quick',
            'thorough_cmd': f'./check {pid} --tier thorough',
            'evidence_file': f'evidence/{pid}.json',
            'replay_cmd_template': './check --replay {path}',
            'engine': 'vmc',
            'level_claimed': {'category': 'model_checking', 'text': text, 'design_ref': ref},
            'level_note': note,
            'technique': technique,
        }
    )
na = [
    {'property_id': pid, 'reason': NOT_YET.get(pid, 'check not implemented yet in this tree (planned in DESIGN.md section 4); not claimed')}
    for pid in props
    if pid not in CHECKS
]
m = {
    'version': 1,
    'setup_cmd': 'sh tools/setup.sh',
    'hooks': {
        'guard': 'CIRBO_VERIF',
        'enable': 'no source hooks exist: checks import /repo working tree directly with PYTHONPATH=/repo:/verif/shims:/verif; environment shims (pysat, mockturtle_wrapper) and uuid/hash-seed control live in /verif only',
        'baseline_off_cmd': 'cd /repo && /venv/bin/python -m pytest -ra -q -p no:cacheprovider --timeout=900 --continue-on-collection-errors',
        'source_commits': [],
        'add_only': True,
    },
    'engines': [
        {
            'name': 'vmc',
            'path': 'vmc/',
            'serves_properties': [c['property_id'] for c in checks],
            'kind_free_text': 'hand-written bounded exhaustive explorer for Python: E1 circuit-space enumeration, E2 explicit-state BFS over mutator histories, E3 deviation-bounded enumeration of environment answers (SAT models, cut families, set orders); reference model in vmc/refmodel.py; runs the real cirbo code from /repo',
        }
    ],
    'checks': checks,
    'not_applicable': na,
    'notes': 'All checks are bounded exhaustive enumerations (no sampling); VERIF_SEED selects PYTHONHASHSEED (set iteration orders inside the library). Besides the per-check alphabets in level_claimed, the engine re-runs the smallest tasks of every check under object variants (deep copies, users-first storage, circuits reached through a queried-then-mutated precursor), and most checks add structured families beyond the small-scope bound (chains of 1200-70000 gates, 255-300-operand gates, 9-13-input circuits with narrow cones, history states); evidence/<id>.json states the exact rule and bound of the run. VERIF_TASK_TIMEOUT / VERIF_WORKER_GB bound a single task (a task that does not return is a violation). See DESIGN.md 11.4-11.5.',
}
with open(os.path.join(HERE, 'MANIFEST.json'), 'w') as f:
    json.dump(m, f, indent=1)
    f.write('\n')
print('wrote MANIFEST.json with', len(checks), 'checks,', len(na), 'not_applicable')
