"""C16 - the database codec never silently changes a circuit.

(a) circuits over the 14 format types at their format arities, n in 0..3, every storage
    order (through rename), outputs of length 0..2: encode and decode must succeed and
    give the same circuit up to renaming.
(b) the same with n-ary gates, L*/R* types, constants carrying operands: codec error or
    a faithful round trip, never a different circuit.
(c) BitWriter/BitReader inverse laws, (d) binary dict inverse laws incl. every truncation
    and one-byte extension, (e) CircuitsDatabase histories over BytesIO.
"""

import io
import itertools

from vmc import refmodel, space
from vmc.engine import guarded

ID = 'C16'
# The format gives constants two operands (the decoder reads two operand words for every
# type except NOT/IFF, and the repository's own tests store ALWAYS_TRUE(A, B)); a bare
# constant is therefore *outside* the format arities and belongs to EXT.
FMT = space.alphabet('NOT', 'IFF', 'AND', 'OR', 'NOR', 'NAND', 'XOR', 'NXOR', 'GEQ', 'GT', 'LEQ', 'LT') + (
    ('ALWAYS_TRUE', 2), ('ALWAYS_FALSE', 2))
EXT = space.S3 + space.L + (('ALWAYS_TRUE', 1), ('ALWAYS_FALSE', 0), ('ALWAYS_TRUE', 0), ('AND', 4)) + space.alphabet('AND', 'NOT', 'GT') + (('ALWAYS_FALSE', 2),)
ALPHAS = {'FMT': FMT, 'EXT': EXT}
FMT_ARITY = {t: a for t, a in FMT}


def plan(tier):
    t = [{'kind': 'bits'}, {'kind': 'dict'}, {'kind': 'db'}]
    for nin in (255, 256, 32767, 32768, 40000, 70001):
        t.append({'kind': 'hugeif', 'nin': nin})
    for pat in ('not-and', 'cmp', 'xor-nor', 'iff-not'):
        for L in space.DEEP_LENGTHS[tier][:2]:
            for st in ('fwd', 'rev'):
                t.append({'kind': 'deep', 'pattern': pat, 'L': L, 'storage': st})
    fams = [('FMT', 0, 1, 0), ('FMT', 0, 2, 1), ('FMT', 1, 1, 0), ('FMT', 1, 2, 1), ('FMT', 2, 1, 1), ('FMT', 2, 2, 1),
            ('FMT', 3, 1, 1), ('FMT', 3, 0, 0), ('FMT', 0, 0, 0), ('FMT', 1, 0, 0),
            ('EXT', 1, 1, 0), ('EXT', 2, 1, 1), ('EXT', 2, 2, 1), ('EXT', 0, 2, 1)]
    if tier == 'thorough':
        fams += [('FMT', 3, 2, 1), ('FMT', 2, 3, 2), ('FMT', 0, 3, 1), ('FMT', 1, 3, 2), ('EXT', 3, 2, 1), ('EXT', 1, 3, 2)]
    for a, n, k, split in fams:
        for tk in space.tasks(n, k, ALPHAS[a], split):
            tk.update(kind='circ', alpha=a)
            t.append(tk)
    return t


def describe(tier):
    return {
        'rule': 'interfaces of 255..70001 inputs (node numbers of 8..17 bits); keys in non-NFC spellings next to their NFC twins; dictionary entries whose value / key is 255..65535 bytes long (around 2^8, 2^15, 2^16-1); zero-width numbers at byte boundaries and at the end of the data; deep: encode/decode of chains of 1200/3000 gates in four format patterns, both storage orders; bytes(writer) read after every single write (an observation must not change what is written next); circ: every circuit of F(n,k,FMT) (14 format types at format arities - constants carry two operands; n>=0) and F(n,k,EXT) (3/4-ary gates, '
        'L*/R* types, constants with 0/1 operands) x outputs (all sequences of length 0..2) x object/storage variants (creation; copy.deepcopy; pickle round trip; declared input order reversed / rotated; every '
        'order reachable by renaming each gate away and back) -> encode/decode; structural '
        'comparison up to renaming + truth tables. bits: every bit string of length<=12, every write_number(v,len) '
        'sequence (len<=10 singles, len<=5 pairs/triples), 16/24/32-bit numbers at aligned and unaligned positions (all 16-bit values; structured bytes above), overflow and read-past-end. dict: every dict with <=2 entries over '
        '5 keys x 3 values, every strict prefix and every one-byte extension of its encoding. db: every history of length<=3 '
        'over {add(c,label), add(c), get, save+reopen}. distinct = distinct (kind, outcome class).',
        'bounds': {
            'quick': 'FMT: n<=3,k<=2 (n+k<=4); EXT: n+k<=4',
            'thorough': '+ FMT: F(3,2), F(<=2,3) (three output lists for 3 gates); EXT: F(3,2), F(1,3)',
        }[tier],
        'exhaustive': True,
        'assumptions': ['vmc.refmodel evaluator; structural signature comparison (this module)'],
    }


def probe():
    from cirbo.circuits_db.circuits_encoding import decode_circuit, encode_circuit

    c = space.build(2, (('GT', (0, 1)), ('NOT', (2,))), (3, 0))
    b = encode_circuit(c)
    return [list(b), refmodel.abstract(decode_circuit(b)).to_json()]


def _sigs(net):
    """Structural signature of every gate, inputs by position."""
    memo = {}
    for i, l in enumerate(net.inputs):
        memo[l] = ('in', i)
    order = net.topo()
    if order is None:
        return None
    for l in order:
        if l in memo:
            continue
        t, ops = net.gates[l]
        memo[l] = (t, tuple(memo[o] for o in ops))
    return memo


def same_up_to_renaming(a, b):
    sa, sb = _sigs(a), _sigs(b)
    if sa is None or sb is None:
        return False
    if len(a.inputs) != len(b.inputs) or len(a.gates) != len(b.gates):
        return False
    if sorted(map(repr, sa.values())) != sorted(map(repr, sb.values())):
        return False
    return [sa[o] for o in a.outputs] == [sb[o] for o in b.outputs]


def storage_orders(c_builder, labs_gates):
    """Yield (tag, circuit) for the creation order and for orders obtained by renaming
    gates away and back (a renamed gate moves to the end of the gate map)."""
    yield 'creation', c_builder()
    for tag, cv in space.identity_variants(c_builder()):
        yield tag, cv
    c = c_builder()
    if len(c.inputs) >= 2:
        # declared input order differs from the order the INPUT gates are stored in
        c.set_inputs(list(reversed(c.inputs)))
        yield 'inputs-reversed', c
        if len(c.inputs) >= 3:
            c = c_builder()
            c.order_inputs([c.inputs[1]])
            yield 'inputs-rotated', c
    k = len(labs_gates)
    if k >= 2:
        for perm in itertools.permutations(range(k)):
            if list(perm) == list(range(k)):
                continue
            c = c_builder()
            for j in perm:
                l = labs_gates[j]
                c.rename_gate(l, l + '_t')
                c.rename_gate(l + '_t', l)
            yield 'moved' + ''.join(map(str, perm)), c


def check_circuit(n, gates, acc, alpha, only=None):
    from cirbo.circuits_db.circuits_encoding import decode_circuit, encode_circuit
    from cirbo.circuits_db.exceptions import CircuitsDatabaseError

    k = len(gates)
    p = n + k
    labs = space.labels(n, k)
    in_format = all(FMT_ARITY.get(t) == len(ops) for t, ops in gates)
    outs_all = [()] + [s for ln in (1, 2) for s in itertools.product(range(p), repeat=ln)]
    if k >= 3:  # largest families: three output lists
        outs_all = [(), (p - 1,), (p - 1, 0)]
    for outs in outs_all:
        if only is not None and list(outs) != only.get('outputs'):
            continue
        for tag, c in storage_orders(lambda: space.build(n, gates, outs), labs[n:]):
            if only is not None and tag != only.get('order'):
                continue
            acc.states += 1
            acc.traces += 1
            acc.transitions += 2
            case = lambda: {**space.spec_json(n, gates, outs), 'order': tag}  # noqa: E731
            want = refmodel.abstract(c)
            feats = {'in_format': in_format, 'n': n, 'order': 'creation' if tag == 'creation' else 'moved'}
            before = want.key()
            try:
                data = encode_circuit(c)
            except CircuitsDatabaseError as e:
                if in_format:
                    acc.violation('encode/rejects-format-circuit', case, repr(e), feats)
                acc.outcome('codec', ('encode-error', in_format))
                continue
            except Exception as e:  # noqa: BLE001
                acc.violation(f'encode/raises-{type(e).__name__}', case, repr(e), feats)
                continue
            if refmodel.abstract(c).key() != before:
                acc.violation('encode/argument-modified', case, '', feats)
            if not isinstance(data, bytes):
                acc.violation('encode/not-bytes', case, type(data).__name__, feats)
                continue
            try:
                d = decode_circuit(data)
            except CircuitsDatabaseError as e:
                if in_format:
                    acc.violation('decode/rejects-encoded-format-circuit', case, repr(e), feats)
                acc.outcome('codec', ('decode-error', in_format))
                continue
            except Exception as e:  # noqa: BLE001
                acc.violation(f'decode/raises-{type(e).__name__}', case, repr(e), feats)
                continue
            got = refmodel.abstract(d)
            if not same_up_to_renaming(want, got):
                acc.violation('codec/silently-different-circuit', case, f'decoded {got.to_json()}', feats)
                continue
            if refmodel.wellformed(d, deep=False):
                acc.violation('codec/decoded-ill-formed', case, '', feats)
                continue
            if [v for v in want.out_tables()] != [v for v in got.out_tables()]:
                acc.violation('codec/truth-table-differs', case, '', feats)
            acc.outcome('codec', ('ok', in_format, len(data)))
    acc.sample({**space.spec_json(n, gates, outs_all[-1]), 'order': 'creation'})


def check_deep(acc, pattern, L, storage):
    """encode/decode of a chain deeper than the recursion limit (gate tables compared as a multiset, outputs
    positionally; the nested structural signature of the small families would itself be 3000 levels deep)"""
    from cirbo.circuits_db.circuits_encoding import decode_circuit, encode_circuit

    c, net = space.deep_chain(pattern, L, storage)
    case = {'deep_chain': pattern, 'length': L, 'storage': storage}
    acc.states += 1
    acc.traces += 1
    acc.transitions += 2
    before = refmodel.abstract(c).key()
    try:
        data = encode_circuit(c)
        d = decode_circuit(data)
    except Exception as e:  # noqa: BLE001
        acc.violation(f'codec/raises-{type(e).__name__}', case, repr(e)[:200], {'in_format': True})
        return
    if refmodel.abstract(c).key() != before:
        acc.violation('encode/argument-modified', case, '', {'in_format': True})
    got = refmodel.abstract(d)
    if len(got.inputs) != len(net.inputs) or len(got.gates) != len(net.gates) or len(got.outputs) != len(net.outputs) or refmodel.wellformed(d, deep=False):
        acc.violation('codec/silently-different-circuit', case, f'{len(got.gates)} gates', {'in_format': True})
        return
    wt, gt = net.tables(), got.tables()
    types = lambda nt: sorted(t for t, _ in nt.gates.values())  # noqa: E731
    if [gt[o] for o in got.outputs] != [wt[o] for o in net.outputs] or sorted(gt.values()) != sorted(wt.values()) or types(got) != types(net):
        acc.violation('codec/truth-table-differs', case, '', {'in_format': True})
    acc.outcome('codec', ('deep', pattern, len(data)))


def check_huge_interface(acc, nin):
    """tens of thousands of inputs (node numbers need 16 and more bits): encode/decode"""
    from cirbo.circuits_db.circuits_encoding import decode_circuit, encode_circuit
    from cirbo.core.circuit import Circuit, gate as G

    c = Circuit()
    ins = [f'i{j}' for j in range(nin)]
    c.add_inputs(ins)
    c.emplace_gate('a', G.AND, (ins[0], ins[-1]))
    c.emplace_gate('b', G.GT, (ins[nin // 2], 'a'))
    c.emplace_gate('c', G.NOT, ('b',))
    c.emplace_gate('d', G.XOR, ('c', ins[1]))
    c.set_outputs(['d', 'a', ins[-1]])
    c = space.variant(c)
    case = {'huge_interface': nin}
    acc.states += 1
    acc.traces += 1
    acc.transitions += 2
    try:
        d = decode_circuit(encode_circuit(c))
    except Exception as e:  # noqa: BLE001
        acc.violation(f'codec/raises-{type(e).__name__}', case, repr(e)[:200], {'in_format': True})
        return
    got = refmodel.abstract(d)
    if len(got.inputs) != nin or len(got.outputs) != 3 or len(got.gates) != nin + 4 or refmodel.wellformed(d, deep=False):
        acc.violation('codec/silently-different-circuit', case, f'{len(got.inputs)} inputs, {len(got.outputs)} outputs, {len(got.gates)} gates', {'in_format': True})
        return
    pos = {l: i for i, l in enumerate(got.inputs)}
    types = sorted((t, tuple(pos.get(o, 'g') for o in ops)) for t, ops in got.gates.values() if t != 'INPUT')
    want = sorted([('AND', (0, nin - 1)), ('GT', (nin // 2, 'g')), ('NOT', ('g',)), ('XOR', ('g', 1))])
    if types != want or pos.get(got.outputs[2]) != nin - 1:
        acc.violation('codec/silently-different-circuit', case, f'{types}', {'in_format': True})
    acc.outcome('codec', ('huge', nin))


def check_bits(acc):
    from cirbo.circuits_db.bit_io import BitReader, BitWriter
    from cirbo.circuits_db.exceptions import BitIOError

    # every bit string of length <= 12
    for ln in range(0, 13):
        for bits in itertools.product((False, True), repeat=ln):
            acc.states += 1
            acc.traces += 1
            acc.transitions += 2 * ln + 1
            w = BitWriter()
            for b in bits:
                w.write(b)
            data = bytes(w)
            case = {'bits': ''.join('1' if b else '0' for b in bits)}
            # looking at the bytes so far is an observation: a writer that is read after every write must end
            # with the same bytes, and every intermediate reading is the encoding of the prefix written so far
            w2 = BitWriter()
            prefix_ok = bytes(w2) == b''
            for i, b in enumerate(bits):
                w2.write(b)
                mid = bytes(w2)
                rr = BitReader(mid)
                if len(mid) != (i + 8) // 8 or [rr.read() for _ in range(i + 1)] != list(bits[:i + 1]):
                    prefix_ok = False
            if not prefix_ok or bytes(w2) != data:
                acc.violation('bit_io/reading-the-bytes-changes-the-writer', case, f'{bytes(w2)!r} vs {data!r}')
            if len(data) != (ln + 7) // 8:
                acc.violation('bit_io/byte-length', case, len(data))
            r = BitReader(data)
            back = [r.read() for _ in range(ln)]
            if back != list(bits) or not all(isinstance(x, bool) for x in back):
                acc.violation('bit_io/read-write-not-inverse', case, str(back))
            # padding must be zero and reading past the end must raise
            rest = 8 * len(data) - ln
            pad = [r.read() for _ in range(rest)]
            if any(pad):
                acc.violation('bit_io/nonzero-padding', case, str(pad))
            try:
                r.read()
                acc.violation('bit_io/read-past-end-does-not-raise', case, '')
            except BitIOError:
                pass
            except Exception as e:  # noqa: BLE001
                acc.violation('bit_io/read-past-end-wrong-exception', case, repr(e))
    acc.outcome('bits', 'strings')

    def seqs():
        for ln in range(0, 11):
            for v in range(1 << ln):
                yield [(v, ln)]
        lens = range(0, 6)
        for l1, l2 in itertools.product(lens, repeat=2):
            for v1 in range(1 << l1):
                for v2 in range(1 << l2):
                    yield [(v1, l1), (v2, l2)]
        # zero-width pieces exactly at a byte boundary / at the end of the data
        for v in range(256):
            yield [(v, 8), (0, 0)]
            yield [(0, 0), (v, 8), (0, 0), (0, 0)]
        for v in (0, 1, 0xA5C3, 0xFFFF):
            yield [(v, 16), (0, 0)]
            yield [(v & 0xFF, 8), (0, 0), (v >> 8, 8), (0, 0)]
        yield [(0, 0)]
        yield [(0, 0), (0, 0)]
        for l1, l2, l3 in itertools.product(range(0, 4), repeat=3):
            for v1 in range(1 << l1):
                for v2 in range(1 << l2):
                    for v3 in range(1 << l3):
                        yield [(v1, l1), (v2, l2), (v3, l3)]

    for seq in seqs():
        acc.states += 1
        acc.traces += 1
        acc.transitions += 2 * len(seq)
        w = BitWriter()
        case = {'numbers': seq}
        try:
            for v, ln in seq:
                w.write_number(v, ln)
        except Exception as e:  # noqa: BLE001
            acc.violation('bit_io/write_number-raises-in-range', case, repr(e))
            continue
        r = BitReader(bytes(w))
        try:
            back = [r.read_number(ln) for _, ln in seq]
        except Exception as e:  # noqa: BLE001
            acc.violation(f'bit_io/read_number-raises-{type(e).__name__}', case, repr(e))
            continue
        if back != [v for v, _ in seq]:
            acc.violation('bit_io/number-roundtrip', case, str(back))
    acc.outcome('bits', 'numbers')
    for ln in range(0, 11):
        for v in (1 << ln, (1 << ln) + 1, 1 << (ln + 3)):
            acc.states += 1
            acc.traces += 1
            acc.transitions += 1
            try:
                BitWriter().write_number(v, ln)
                acc.violation('bit_io/overflow-not-rejected', {'v': v, 'len': ln}, '')
            except BitIOError:
                pass
            except Exception as e:  # noqa: BLE001
                acc.violation('bit_io/overflow-wrong-exception', {'v': v, 'len': ln}, repr(e))
    # wide numbers at byte-aligned and unaligned positions (16/24/32 bits)
    def wide_values(ln):
        if ln == 16:
            return range(1 << 16)
        bytes_ = (0x00, 0x01, 0x80, 0xFF, 0x5A)
        return [sum(b << (8 * i) for i, b in enumerate(bs)) for bs in itertools.product(bytes_, repeat=ln // 8)]

    for ln in (16, 24, 32):
        for pre in ((), ((0xA5, 8),), ((5, 3),)):
            for v in wide_values(ln):
                if ln == 16 and pre and v % 257:
                    continue
                acc.states += 1
                acc.traces += 1
                acc.transitions += 2
                seq = list(pre) + [(v, ln), (1, 1)]
                w = BitWriter()
                for x, l_ in seq:
                    w.write_number(x, l_)
                data = bytes(w)
                # the format is LSB-first: check the bytes against integer arithmetic
                total = 0
                shift = 0
                for x, l_ in seq:
                    total |= x << shift
                    shift += l_
                want = total.to_bytes((shift + 7) // 8, 'little')
                if data != want:
                    acc.violation('bit_io/wide-number-bytes', {'numbers': seq}, f'{data.hex()} expected {want.hex()}')
                    break
                r = BitReader(data)
                if [r.read_number(l_) for _, l_ in seq] != [x for x, _ in seq]:
                    acc.violation('bit_io/wide-number-roundtrip', {'numbers': seq}, '')
                    break
    acc.outcome('bits', 'wide')
    for b in range(256):
        w = BitWriter()
        w.write_byte(b)
        acc.states += 1
        acc.transitions += 2
        if bytes(w) != bytes([b]) or BitReader(bytes([b])).read_byte() != b:
            acc.violation('bit_io/byte-roundtrip', {'byte': b}, '')
    acc.outcome('bits', 'overflow')
    acc.sample({'numbers': [[5, 3], [0, 0], [17, 5]]})


KEYS = ['', 'a', 'ab', 'é', '€', '\ufeffa', 'a\ufeff', 'e\u0301', '\u212b', '\u1112\u1161\u11ab', '\u00c5']  # incl. non-NFC spellings next to their NFC twins
VALS = [b'', b'\x00', b'ab']


def check_dict(acc):
    from cirbo.circuits_db.binary_dict_io import read_binary_dict, write_binary_dict
    from cirbo.circuits_db.exceptions import BinaryDictIOError

    dicts = [{}]
    for k1 in KEYS:
        for v1 in VALS:
            dicts.append({k1: v1})
    for k1, k2 in itertools.permutations(KEYS, 2):
        for v1 in VALS:
            for v2 in VALS:
                dicts.append({k1: v1, k2: v2})
    for d in dicts:
        acc.states += 1
        acc.traces += 1
        acc.transitions += 2
        case = {'dict': [[k, list(v)] for k, v in d.items()]}
        feats = {'non_ascii_key': any(ord(ch) > 127 for k in d for ch in k)}
        s = io.BytesIO()
        try:
            write_binary_dict(d, s)
        except Exception as e:  # noqa: BLE001
            acc.violation('binary_dict/write-raises', case, repr(e), feats)
            continue
        data = s.getvalue()
        try:
            back = read_binary_dict(io.BytesIO(data))
        except Exception as e:  # noqa: BLE001
            acc.violation('binary_dict/read-of-written-raises', case, repr(e), feats)
            continue
        if back != d or list(back) != list(d):
            acc.violation('binary_dict/roundtrip-differs', case, repr(back), feats)
            continue
        for cut in range(len(data)):
            acc.transitions += 1
            try:
                r = read_binary_dict(io.BytesIO(data[:cut]))
                acc.violation('binary_dict/truncated-accepted', {**case, 'cut': cut}, repr(r), feats)
                break
            except BinaryDictIOError:
                pass
            except Exception as e:  # noqa: BLE001
                acc.violation('binary_dict/truncated-wrong-exception', {**case, 'cut': cut}, repr(e), feats)
                break
        for extra in (b'\x00', b'\x01', b'\xff'):
            acc.transitions += 1
            try:
                r = read_binary_dict(io.BytesIO(data + extra))
                acc.violation('binary_dict/trailing-data-accepted', {**case, 'extra': list(extra)}, repr(r), feats)
            except BinaryDictIOError:
                pass
            except Exception as e:  # noqa: BLE001
                acc.violation('binary_dict/trailing-wrong-exception', {**case, 'extra': list(extra)}, repr(e), feats)
        acc.outcome('dict', (len(d), len(data)))
    # long values / keys around the powers of two below the 2-byte length limit
    for ln in (255, 256, 257, 32767, 32768, 32769, 40000, 65535):
        for what in ('value', 'ascii-key', 'utf8-key'):
            if what == 'value':
                d = {'k': bytes((i * 7 + 3) % 256 for i in range(ln))}
            elif what == 'ascii-key':
                d = {'k' * ln: b'v'}
            else:
                d = {'€' * (ln // 3) + 'a' * (ln % 3): b'v'}
            acc.states += 1
            acc.traces += 1
            acc.transitions += 2
            case = {'dict_entry': what, 'encoded_length': ln}
            s_ = io.BytesIO()
            try:
                write_binary_dict(d, s_)
                data = s_.getvalue()
                back = read_binary_dict(io.BytesIO(data))
            except Exception as e:  # noqa: BLE001
                acc.violation(f'binary_dict/long-entry-raises-{type(e).__name__}', case, repr(e)[:200])
                continue
            if back != d:
                acc.violation('binary_dict/roundtrip-differs', case, f'{len(next(iter(back.values()), b""))} value bytes')
                continue
            for cut in (len(data) - 1, len(data) // 2, 3):
                try:
                    read_binary_dict(io.BytesIO(data[:cut]))
                    acc.violation('binary_dict/truncated-accepted', {**case, 'cut': cut}, '')
                except BinaryDictIOError:
                    pass
                except Exception as e:  # noqa: BLE001
                    acc.violation('binary_dict/truncated-wrong-exception', {**case, 'cut': cut}, repr(e)[:200])
            acc.outcome('dict', ('long', what, ln))
    acc.sample({'dict': [['é', [0]], ['ab', []]]})


def check_db(acc):
    """Histories of length <= 3 over add/get/save+reopen on a BytesIO database."""
    from cirbo.circuits_db.db import CircuitsDatabase
    from cirbo.circuits_db.exceptions import CircuitsDatabaseError

    # three normalized circuits (first truth-table entry False, sorted, distinct outputs)
    specs = {
        'and': (2, (('AND', (0, 1)),), (2,)),
        'xor_gt': (2, (('XOR', (0, 1)), ('GT', (0, 1))), (3, 2)),
        'not0': (1, (('NOT', (0,)), ('NOT', (1,))), (2,)),
    }
    ops = []
    for nm in specs:
        ops.append(('add_label', nm))
        ops.append(('add_tt', nm))
        ops.append(('get', nm))
    ops.append(('reopen', None))
    for ln in (1, 2, 3):
        for hist in itertools.product(ops, repeat=ln):
            acc.states += 1
            acc.traces += 1
            case = {'history': [list(h) for h in hist]}
            db = CircuitsDatabase()
            db.open()
            model = {}  # label -> net
            ok = True
            for op, nm in hist:
                acc.transitions += 1
                try:
                    if op == 'reopen':
                        s = io.BytesIO()
                        db.save(s)
                        db = CircuitsDatabase(io.BytesIO(s.getvalue()))
                        db.open()
                        continue
                    n, gates, outs = specs[nm]
                    c = space.build(n, gates, outs)
                    net = space.spec_net(n, gates, outs)
                    tt_label = '_'.join(refmodel.tt_str(v, n) for v in net.out_tables())
                    if op == 'add_label':
                        lab = 'L_' + nm
                    elif op == 'add_tt':
                        lab = tt_label
                    if op in ('add_label', 'add_tt'):
                        try:
                            db.add_circuit(c, 'L_' + nm if op == 'add_label' else None)
                            if lab in model:
                                acc.violation('db/duplicate-label-accepted', case, lab)
                                ok = False
                                break
                            model[lab] = net
                        except CircuitsDatabaseError:
                            if lab not in model:
                                acc.violation('db/add-rejected', case, lab)
                                ok = False
                                break
                    else:
                        for lab in ('L_' + nm, tt_label):
                            got = db.get_by_label(lab)
                            if (got is None) != (lab not in model):
                                acc.violation('db/get-presence-differs', case, lab)
                                ok = False
                                break
                            if got is not None and not same_up_to_renaming(model[lab], refmodel.abstract(got)):
                                acc.violation('db/get-returns-different-circuit', case, lab)
                                ok = False
                                break
                        if not ok:
                            break
                except Exception as e:  # noqa: BLE001
                    acc.violation(f'db/raises-{type(e).__name__}', case, repr(e))
                    ok = False
                    break
            acc.outcome('db', (ln, len(model)))
    acc.sample({'history': [['add_tt', 'xor_gt'], ['reopen', None], ['get', 'xor_gt']]})


def run_task(task, acc):
    if task.get('kind') == 'deep':
        return check_deep(acc, task['pattern'], task['L'], task['storage'])
    if task.get('kind') == 'hugeif':
        return check_huge_interface(acc, task['nin'])
    kind = task['kind']
    if kind == 'bits':
        return check_bits(acc)
    if kind == 'dict':
        return check_dict(acc)
    if kind == 'db':
        return check_db(acc)
    alpha = ALPHAS[task['alpha']]
    for gates in space.enum_gates(task['n'], task['k'], alpha, space.prefix_from_task(task)):
        check_circuit(task['n'], gates, acc, task['alpha'])


def replay(case, acc):
    if 'deep_chain' in case:
        return check_deep(acc, case['deep_chain'], case['length'], case['storage'])
    if 'huge_interface' in case:
        return check_huge_interface(acc, case['huge_interface'])
    if 'task' in case:
        return run_task(case['task'], acc)
    if 'gates' in case:
        n, gates, outs = space.spec_from_json(case)
        return check_circuit(n, gates, acc, None, only={'outputs': list(outs), 'order': case.get('order', 'creation')})
    if 'dict_entry' in case:
        return check_dict(acc)
    if 'dict' in case:
        return check_dict(acc)
    if 'history' in case:
        return check_db(acc)
    return check_bits(acc)
