"""Shared harness for the arithmetic generator properties (C07, C08, C09).

Hosts: H0 fresh primary inputs; H1 operands are IFF/NOT copies of inputs (non-input
operands, every operand value still reachable); H2 a host with existing gates, outputs
and a block, operands drawn (with repeats) from its nodes ("folded" operands).
All host input assignments are enumerated bit-parallel with the reference evaluator.
"""

from vmc import refmodel, space


def host(kind, k):
    """Returns (circuit, operand_labels, free) where free = True when operand values are
    independent (every operand vector reachable)."""
    from cirbo.core.circuit import Circuit, gate as G

    c = Circuit()
    if kind == 'H0':
        labs = [f'in{i}' for i in range(k)]
        c.add_inputs(labs)
        return space.variant(c), labs
    if kind == 'H1':
        ins = [f'in{i}' for i in range(k)]
        c.add_inputs(ins)
        ops = []
        for i, l in enumerate(ins):
            o = f'op{i}'
            c.emplace_gate(o, G.IFF if i % 2 == 0 else G.NOT, (l,))
            ops.append(o)
        c.emplace_gate('dead', G.AND, (ops[0], ops[-1]))
        c.set_outputs([ops[0]])
        return space.variant(c), ops
    raise KeyError(kind)


H2_POOL = ['h0', 'e0', 'h1', 'e1', 'e2', 'h2', 'e3', 'e4']


def host2(q=3):
    """Host with q inputs, gates, outputs and a block; returns (circuit, pool of nodes)."""
    from cirbo.core.circuit import Circuit, gate as G

    c = Circuit()
    ins = [f'h{i}' for i in range(q)]
    c.add_inputs(ins)
    c.emplace_gate('e0', G.AND, ('h0', 'h1'))
    c.emplace_gate('e1', G.XOR, ('h1', ins[2 % q]))
    c.emplace_gate('e2', G.NOT, ('h0',))
    c.emplace_gate('e3', G.OR, ('e0', ins[2 % q]))
    c.emplace_gate('e4', G.GT, ('e1', 'e2'))
    c.set_outputs(['e1', 'h0', 'e4', 'e1'])  # one gate on two output pins
    c.make_block('HB', ['e0', 'e3'], ['e3'])
    pool = [p for p in H2_POOL if p in c.gates]
    return space.variant(c), pool


def snapshot(c):
    return refmodel.abstract(c), refmodel.users_snapshot(c)


def host_untouched(acc, sig, case, c, before, feats=None, allow_new_outputs=()):
    """Only fresh gates were added; every pre-existing gate keeps type and operands (hence
    its function); inputs/blocks unchanged; outputs changed only by `allow_new_outputs`."""
    net0, _ = before
    net = refmodel.abstract(c)
    ok = True
    for k, v in net0.gates.items():
        if net.gates.get(k) != v:
            acc.violation(f'{sig}/existing-gate-changed', case, f'{k}: {net.gates.get(k)} was {v}', feats)
            ok = False
            break
    if net.inputs != net0.inputs:
        acc.violation(f'{sig}/host-inputs-changed', case, f'{net.inputs} was {net0.inputs}', feats)
        ok = False
    old_part = [o for o in net.outputs if o not in allow_new_outputs or o in net0.outputs]
    if sorted(old_part) != sorted(net0.outputs) and list(allow_new_outputs) == []:
        acc.violation(f'{sig}/host-outputs-changed', case, f'{net.outputs} was {net0.outputs}', feats)
        ok = False
    if {k: (a, sorted(b), cc) for k, (a, b, cc) in net.blocks.items()} != {k: (a, sorted(b), cc) for k, (a, b, cc) in net0.blocks.items()}:
        acc.violation(f'{sig}/host-blocks-changed', case, '', feats)
        ok = False
    probs = refmodel.wellformed(c, deep=False)
    if probs:
        acc.violation(f'{sig}/ill-formed', case, probs[:2], feats)
        ok = False
    return ok, net


def new_gates(net, before):
    net0, _ = before
    return {k: v for k, v in net.gates.items() if k not in net0.gates}


def tables(net):
    return net.tables()


def value_rows(tabs, weighted, nrows):
    """Per host-assignment integer value of sum(bit(label) << weight)."""
    out = [0] * nrows
    for lab, w in weighted:
        v = tabs[lab]
        j = 0
        while v:
            if v & 1:
                out[j] += 1 << w
            v >>= 1
            j += 1
    return out


def decode_rows(tabs, labels, nrows, big_endian=False):
    """Per-row integer encoded by `labels` (little-endian unless big_endian)."""
    labs = list(labels)
    if big_endian:
        labs = labs[::-1]
    return value_rows(tabs, [(l, i) for i, l in enumerate(labs)], nrows)


def fresh_generator_check(acc, name, make):
    """generate_* must hand out a fresh, correct circuit on every call: build one, edit it in place
    (the caller owns it), build again and compare the second one with the first one's original shape."""
    from cirbo.core.circuit import gate as G

    acc.transitions += 2
    case = {'fn': name, 'scenario': 'generate, edit the result, generate again'}
    try:
        c1 = make()
        n1 = refmodel.abstract(c1)
        t1 = n1.out_tables()
        shape1 = (len(n1.inputs), len(n1.outputs), len(n1.gates))
        # edit the first result the way a caller might
        c1.emplace_gate('zz_edit', G.NOT, (list(c1.gates)[0],))
        c1.set_outputs(['zz_edit'])
        c1.add_inputs(['zz_new_input'])
        c2 = make()
        n2 = refmodel.abstract(c2)
    except Exception as e:  # noqa: BLE001
        acc.violation(f'{name}/raises-{type(e).__name__}', case, repr(e))
        return
    if c2 is c1 or (len(n2.inputs), len(n2.outputs), len(n2.gates)) != shape1 or n2.out_tables() != t1:
        acc.violation(f'{name}/second-call-is-not-a-fresh-correct-circuit', case, f'first {shape1}, second {(len(n2.inputs), len(n2.outputs), len(n2.gates))}')


def decoy_host(k):
    """k inputs and ONLY n-ary gates that contain every ordered pair of inputs among three or four operands
    (no exact two-operand gate exists, so anything 'found' for a pair is a decoy)."""
    from cirbo.core.circuit import Circuit, gate as G

    c = Circuit()
    ins = [f'in{i}' for i in range(k)]
    c.add_inputs(ins)
    cnt = 0
    for a in ins:
        for b in ins:
            if a == b:
                continue
            for z in [i for i in ins if i not in (a, b)][:2] or [a]:
                for t in ('AND', 'OR', 'XOR', 'NAND', 'NOR', 'NXOR'):
                    c.emplace_gate(f'd{cnt}', getattr(G, t), (a, b, z))
                    cnt += 1
                    c.emplace_gate(f'd{cnt}', getattr(G, t), (z, a, z, b))
                    cnt += 1
    c.set_outputs([ins[0]])
    return space.variant(c), ins


def saturated_host(k, wide=False):
    """k inputs plus EVERY two-operand gate of every asymmetric/symmetric type over every ordered pair of
    inputs, and one more layer over (XOR(a,b), input) in both orders: a host in which any gate a generator
    is about to create probably already exists (possibly with swapped operands)."""
    from cirbo.core.circuit import Circuit, gate as G

    c = Circuit()
    ins = [f'in{i}' for i in range(k)]
    c.add_inputs(ins)
    types = ('AND', 'OR', 'XOR', 'NAND', 'NOR', 'NXOR', 'GT', 'LT', 'GEQ', 'LEQ')
    cnt = 0
    xors = {}
    for a in ins:
        for b in ins:
            if a == b:
                continue
            for t in types:
                lab = f'h{cnt}'
                cnt += 1
                c.emplace_gate(lab, getattr(G, t), (a, b))
                if t == 'XOR':
                    xors[(a, b)] = lab
    for (a, b), x in list(xors.items()):
        for t in types:
            for o in (a, b):
                c.emplace_gate(f'h{cnt}', getattr(G, t), (x, o))
                cnt += 1
                c.emplace_gate(f'h{cnt}', getattr(G, t), (o, x))
                cnt += 1
    if wide:
        # decoys: n-ary gates that contain a pair of operands among three or four (a generator looking for "the
        # existing AND of a and b" must not take AND(a, b, z) for it)
        for a in ins:
            for b in ins:
                if a == b:
                    continue
                for z in [i for i in ins if i not in (a, b)][:2] or [a]:
                    for t in ('AND', 'OR', 'XOR', 'NAND', 'NOR', 'NXOR'):
                        c.emplace_gate(f'h{cnt}', getattr(G, t), (a, b, z))
                        cnt += 1
                        c.emplace_gate(f'h{cnt}', getattr(G, t), (z, a, z, b))
                        cnt += 1
    c.set_outputs([ins[0]])
    return space.variant(c), ins


def odd_label_host(k):
    """inputs whose labels are unusual but legal strings (empty label, digits, a generated-looking name)."""
    from cirbo.core.circuit import Circuit

    pool = ['zero', 'one', '', '0', 'new_', 'inf_label', '_PLACEHOLDER_STR_x', 'A b', 'zz', 'not_0', 'x@y', 'const', 'false', 'carry', 'sum']
    labs = [pool[i] if i < len(pool) else f'in{i}' for i in range(k)]
    c = Circuit()
    c.add_inputs(labs)
    return space.variant(c), labs


def live_host(k):
    """operands ARE the circuit's own (live) input list object; the host has order-sensitive gates over them"""
    from cirbo.core.circuit import Circuit, gate as G

    c = Circuit()
    ins = [f'in{i}' for i in range(k)]
    c.add_inputs(ins)
    if k >= 2:
        c.emplace_gate('ord0', G.GT, (ins[0], ins[-1]))
        c.emplace_gate('ord1', G.LNOT, (ins[-1], ins[0]))
        c.set_outputs(['ord0', 'ord1'])
    c = space.variant(c)
    return c, c.inputs


def newlabel_host(k, g=40):
    """k inputs and g gates whose labels are the size-numbered names a generator might invent next
    (new_<size>, new_<size+1>, ...)"""
    from cirbo.core.circuit import Circuit, gate as G

    c = Circuit()
    ins = [f'in{i}' for i in range(k)]
    c.add_inputs(ins)
    for i in range(g):
        c.emplace_gate(f'new_{k + g + i}', G.IFF if i % 2 else G.NOT, (ins[i % k],))
    c.set_outputs([ins[0]])
    return space.variant(c), ins


def oriented_host(k, flip):
    """every asymmetric two-operand gate over every pair of inputs in ONE orientation only (a generator that looks
    for an existing gate must not take LT(b, a) for LT(a, b))"""
    from cirbo.core.circuit import Circuit, gate as G

    c = Circuit()
    ins = [f'in{i}' for i in range(k)]
    c.add_inputs(ins)
    cnt = 0
    for i in range(k):
        for j in range(i + 1, k):
            a, b = (ins[j], ins[i]) if flip else (ins[i], ins[j])
            for t in ('GT', 'LT', 'GEQ', 'LEQ', 'LNOT', 'RNOT', 'LIFF', 'RIFF'):
                c.emplace_gate(f'o{cnt}', getattr(G, t), (a, b))
                cnt += 1
    c.set_outputs([ins[0]])
    return space.variant(c), ins


def repeated_operand_hosts(n, m=0):
    """(tag, circuit, operand labels): operand bit lists drawn WITH repeats from three inputs and the two constant
    gates (a sign-extended or shifted operand lists one host gate at several positions)"""
    import itertools

    from cirbo.core.circuit import Circuit, gate as G

    pool = ['in0', 'in1', 'in2', 'zero', 'one']
    for tup in itertools.product(range(len(pool)), repeat=n + m):
        if len(set(tup)) == len(tup) and not ({3, 4} & set(tup)):
            continue  # plain distinct inputs are covered by the ordinary hosts
        c = Circuit()
        c.add_inputs(['in0', 'in1', 'in2'])
        c.emplace_gate('zero', G.ALWAYS_FALSE, ())
        c.emplace_gate('one', G.ALWAYS_TRUE, ())
        c.set_outputs(['in0'])
        yield 'REP:' + ','.join(pool[i] for i in tup), space.variant(c), [pool[i] for i in tup]
