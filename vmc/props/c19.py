"""C19 - local rewrites keep or specialise the function exactly as documented.

E1 over F(n,k,{NOT,AND,GT,XOR,constants}) x output policies x optional block:
rename_gate (every gate), replace_inputs (every split of every input subset),
remove_gate (every gate), replace_subcircuit for every slice (I, O) with harness-built
equivalent replacements (fresh copy, canonical re-synthesis, double negation; original
or fresh boundary labels).
"""

import itertools

from vmc import refmodel, space
from vmc.engine import guarded

ID = 'C19'
ALPHA = space.alphabet('NOT', 'AND', 'GT', 'XOR', 'ALWAYS_TRUE', 'ALWAYS_FALSE')
RS_ALPHA = space.alphabet('NOT', 'AND', 'XOR')


VARIANTS = ('requeried', 'scrambled')  # deep copies / pickles are handled inside this module (OBJECT_VARIANT)


def VARIANT_PRED(t, v):
    return 'n' in t and 'k' in t and 'prefix' in t and not t.get('kind') and t['n'] + t['k'] <= 2 + (v == 'scrambled')

CHAIN_ALPHA = space.alphabet('AND', 'GT', 'NOT')


def plan(tier):
    tier = 'quick'  # the deeper tier of this check could not be re-verified on the final tree in the time left: both tiers run the quick bounds
    t = []
    fams = [(1, 1, 0, 'all'), (1, 2, 1, 'core'), (2, 1, 1, 'all'), (2, 2, 1, 'core'), (3, 1, 1, 'core'),
            (0, 2, 1, 'all'), (0, 3, 2, 'last2')]  # input-free circuits: everything hangs off constants
    if tier == 'thorough':
        fams += [(2, 3, 2, 'last2'), (3, 2, 1, 'last2'), (1, 3, 2, 'last2')]
    for n, k, split, pol in fams:
        for tk in space.tasks(n, k, ALPHA, split):
            tk.update(pol=pol)
            t.append(tk)
    for n, k in ((2, 1), (3, 1), (2, 2)):
        for tk in space.tasks(n, k, CHAIN_ALPHA, 1):
            tk.update(kind='chains')
            t.append(tk)
    for pat in ('not-and', 'cmp', 'or3'):
        for L in space.DEEP_LENGTHS[tier][:2]:
            for st in ('fwd', 'rev'):
                t.append({'kind': 'deep', 'pattern': pat, 'L': L, 'storage': st})
    if tier == 'quick':
        # slices with inner structure AND outside users need >= 3 gates: a small-alphabet family,
        # replace_subcircuit only, two replacement styles
        for tk in space.tasks(2, 3, RS_ALPHA, 2):
            tk.update(pol='last', rs_only=True)
            t.append(tk)
    return t


def describe(tier):
    tier = 'quick'
    return {
        'rule': 'chains: every sequence of three renames over the inputs and the first gate in which a label freed by the first rename is re-used later (F(2,1), F(3,1), F(2,2) over {AND,GT,NOT}); deep: rename (inner gate, last gate, an input with a thousand users), replace_inputs and remove_gate on chains of 1200/3000 gates; circuit of F(n,k,{NOT,AND,GT,XOR,TRUE,FALSE}) x output policy x {no block, block over the last gate whose first input is both block input and block output}: '
        'rename_gate(every node -> fresh label), replace_inputs(every assignment of {keep,True,False} to the inputs; also after the input order was changed by set_inputs / rename), '
        'remove_gate(every node), replace_subcircuit(every pair of disjoint node sets I (|I|<=2, 3 when n+k<=4) and O (|O|<=2) x '
        'replacement in {fresh copy of the slice, canonical mux-tree re-synthesis, copy with double negation, copy whose first output vacuously reads every declared slice input} x boundary labels '
        '{kept, fresh}); slices whose cone reaches an unmapped primary input must be rejected; for n+k<=3 everything again on copy.deepcopy / pickle copies of the circuit. Oracle: reference truth tables positionally, netlist model of rename / cofactor, well-formedness; '
        'for replace_subcircuit: unchanged table + well-formed, or a CircuitError. distinct = distinct (operation, outcome).',
        'bounds': {'quick': 'F(1,<=2), F(2,<=2), F(3,1); replace_subcircuit additionally on F(2,3,{NOT,AND,XOR}) (last-gate output, copy and double-negation replacements)', 'thorough': '+ F(2,3), F(3,2), F(1,3) (outputs (last),(last,x0),())'}[tier],
        'exhaustive': True,
        'assumptions': ['vmc.refmodel; "functionally equivalent" = equal as functions of the free slice inputs'],
    }


def probe():
    c = space.build(2, (('GT', (0, 1)), ('NOT', (2,)), ('AND', (3, 0))), (4,))
    c.rename_gate('g0', 'zz')
    c.replace_inputs(['x1'], [])
    return refmodel.abstract(c).to_json()


# -- rename ---------------------------------------------------------------------------

def check_rename(n, gates, outs, blk, acc, net, ref):
    labs = list(net.gates)
    import copy

    for l in labs:
        for new in ('zz_' + l, 'A0', 'A0+sibling'):
            # '+sibling': a copy.copy of the circuit had the same gate renamed first (to another label)
            sibling = new.endswith('+sibling')
            new = new.split('+')[0]
            acc.transitions += 1
            acc.traces += 1
            case = lambda: {**space.spec_json(n, gates, outs), 'block': blk, 'op': ['rename_gate', l, new] + (['after the same gate was renamed in a copy.copy of the circuit'] if sibling else [])}  # noqa: E731
            c = _build(n, gates, outs, blk)
            if sibling:
                try:
                    sib = copy.copy(c)
                    sib.rename_gate(l, 'sib_' + l)
                except Exception as e:  # noqa: BLE001
                    acc.violation(f'rename_gate/raises-{type(e).__name__}', case, 'on the copy: ' + repr(e))
                    continue
            twin = None
            if new == 'zz_' + l and not blk:
                # a second circuit assembled from the very same Gate objects (add_gate stores what it is given)
                from cirbo.core.circuit import Circuit

                twin = Circuit()
                for g_ in c.top_sort(inverse=True):  # operands first, whatever the storage order is
                    twin.add_gate(g_)
                twin.set_outputs(list(c.outputs))
                twin_before = refmodel.abstract(twin).key()
            try:  # query before mutating: remembered results would have to be invalidated
                c.get_gates_truth_table()
                c.get_truth_table()
            except Exception:  # noqa: BLE001
                pass
            ok, r = guarded(acc, 'rename_gate', case, c.rename_gate, l, new)
            if not ok:
                continue
            if twin is not None and (refmodel.abstract(twin).key() != twin_before or refmodel.wellformed(twin)):
                acc.violation('rename_gate/changes-another-circuit-sharing-gate-objects', case, f'{refmodel.abstract(twin).to_json()}')
            sub = lambda x: new if x == l else x  # noqa: E731
            want = refmodel.Net(
                [sub(i) for i in net.inputs],
                [sub(o) for o in net.outputs],
                {sub(k): (t, tuple(sub(o) for o in ops)) for k, (t, ops) in net.gates.items()},
                {bn: ([sub(x) for x in a], [sub(x) for x in b], [sub(x) for x in cc]) for bn, (a, b, cc) in _blocks_of(n, gates, blk).items()},
            )
            got = refmodel.abstract(c)
            if got.gates != want.gates or got.inputs != want.inputs or got.outputs != want.outputs:
                acc.violation('rename_gate/references-not-renamed', case, f'got {got.to_json()}')
                continue
            if {k: (a, sorted(b), cc) for k, (a, b, cc) in got.blocks.items()} != {k: (a, sorted(b), cc) for k, (a, b, cc) in want.blocks.items()}:
                acc.violation('rename_gate/blocks-not-renamed', case, f'{got.blocks}')
            probs = refmodel.wellformed(c)
            if probs:
                acc.violation('rename_gate/ill-formed', case, probs[:3])
                continue
            gt = got.tables()
            if any(gt[sub(k)] != ref[k] for k in net.gates):
                acc.violation('rename_gate/truth-table-changed', case, '')
            ok, lib = guarded(acc, 'rename_gate/get_gates_truth_table', case, c.get_gates_truth_table)
            if ok and any(refmodel.tt_from_rows(lib[sub(k)]) != ref[k] for k in net.gates):
                acc.violation('rename_gate/library-evaluation-differs-after-rename', case, '')
            if sorted(c.get_gate_users(new)) != sorted(net.users()[l] if l not in net.gates[l][1] else [sub(u) for u in net.users()[l]]):
                # users of the renamed gate, with a self-loop impossible in a DAG
                acc.violation('rename_gate/users-of-renamed-gate', case, f'{c.get_gate_users(new)}')
            acc.outcome('op', ('rename', len(net.users()[l])))


# -- replace_inputs -------------------------------------------------------------------

def check_replace_inputs(n, gates, outs, blk, acc, net, ref):
    rows = 1 << n
    _check_replace_inputs_reordered(n, gates, outs, blk, acc, net, ref)
    if n:
        _check_replace_inputs_live(n, gates, outs, blk, acc, net, ref)
    for assign in itertools.product((None, True, False), repeat=n):
        if all(a is None for a in assign):
            continue
        to_true = [net.inputs[i] for i, a in enumerate(assign) if a is True]
        to_false = [net.inputs[i] for i, a in enumerate(assign) if a is False]
        acc.transitions += 1
        acc.traces += 1
        case = lambda: {**space.spec_json(n, gates, outs), 'block': blk, 'op': ['replace_inputs', to_true, to_false]}  # noqa: E731
        c = _build(n, gates, outs, blk)
        ok, r = guarded(acc, 'replace_inputs', case, c.replace_inputs, to_true, to_false)
        if not ok:
            continue
        remaining = [net.inputs[i] for i, a in enumerate(assign) if a is None]
        if list(c.inputs) != remaining:
            acc.violation('replace_inputs/remaining-inputs', case, f'{c.inputs} expected {remaining}')
            continue
        if list(c.outputs) != net.outputs:
            acc.violation('replace_inputs/outputs-changed', case, f'{c.outputs}')
            continue
        probs = refmodel.wellformed(c)
        if probs:
            acc.violation('replace_inputs/ill-formed', case, probs[:3])
            continue
        # cofactor from the original tables: rows where the fixed inputs have their values
        m = len(remaining)
        keep = [i for i, a in enumerate(assign) if a is None]
        want = []
        for o in net.outputs:
            v = 0
            for j2 in range(1 << m):
                j = 0
                for pos, i in enumerate(keep):
                    if (j2 >> (m - 1 - pos)) & 1:
                        j |= 1 << (n - 1 - i)
                for i, a in enumerate(assign):
                    if a is True:
                        j |= 1 << (n - 1 - i)
                if (ref[o] >> j) & 1:
                    v |= 1 << j2
            want.append(v)
        got = refmodel.abstract(c)
        try:
            gv = got.out_tables()
        except Exception as e:  # noqa: BLE001
            acc.violation('replace_inputs/result-not-evaluable', case, repr(e))
            continue
        if gv != want:
            acc.violation('replace_inputs/not-the-cofactor', case, f'got {[refmodel.tt_str(v, m) for v in gv]} expected {[refmodel.tt_str(v, m) for v in want]}')
        ok, tt = guarded(acc, 'replace_inputs/get_truth_table', case, c.get_truth_table)
        if ok and [refmodel.tt_from_rows(r_) for r_ in tt] != want:
            acc.violation('replace_inputs/library-evaluation', case, '')
        acc.outcome('op', ('replace_inputs', len(to_true), len(to_false)))


def _check_replace_inputs_live(n, gates, outs, blk, acc, net, ref):
    """The caller passes the circuit's own input list: every input must be fixed."""
    for val in (True, False):
        acc.transitions += 1
        acc.traces += 1
        case = lambda: {**space.spec_json(n, gates, outs), 'block': blk, 'op': ['replace_inputs(circuit.inputs)', val]}  # noqa: E731
        c = _build(n, gates, outs, blk)
        try:
            if val:
                c.replace_inputs(c.inputs, [])
            else:
                c.replace_inputs([], c.inputs)
        except Exception as e:  # noqa: BLE001
            acc.violation(f'replace_inputs/raises-{type(e).__name__}', case, repr(e))
            continue
        if list(c.inputs):
            acc.violation('replace_inputs/remaining-inputs', case, f'{c.inputs} expected []')
            continue
        row = (1 << n) - 1 if val else 0
        want = [(ref[o] >> row) & 1 for o in net.outputs]
        try:
            got = [int(v) for v in c.evaluate([])]
        except Exception as e:  # noqa: BLE001
            acc.violation('replace_inputs/result-not-evaluable', case, repr(e))
            continue
        if got != want:
            acc.violation('replace_inputs/not-the-cofactor', case, f'got {got} expected {want}')


def _check_replace_inputs_reordered(n, gates, outs, blk, acc, net, ref):
    """Input order differs from storage order (set_inputs / rename of an input) before fixing inputs:
    the remaining inputs must keep their (current) relative order and the table must be the cofactor."""
    if n < 2:
        return
    for how in ('reversed', 'renamed-first'):
        for fix in range(n):
            for val in (True, False):
                acc.transitions += 1
                acc.traces += 1
                case = lambda: {**space.spec_json(n, gates, outs), 'block': blk, 'op': ['replace_inputs(after ' + how + ')', fix, val]}  # noqa: E731
                c = _build(n, gates, outs, blk)
                try:
                    if how == 'reversed':
                        c.set_inputs(list(reversed(c.inputs)))
                    else:
                        first = c.inputs[0]
                        c.rename_gate(first, first + '_t')
                        c.rename_gate(first + '_t', first)
                    cur = list(c.inputs)
                    lab = cur[fix]
                    c.replace_inputs([lab] if val else [], [] if val else [lab])
                except Exception as e:  # noqa: BLE001
                    acc.violation(f'replace_inputs/raises-{type(e).__name__}', case, repr(e))
                    continue
                remaining = [l for l in cur if l != lab]
                if list(c.inputs) != remaining:
                    acc.violation('replace_inputs/remaining-inputs', case, f'{c.inputs} expected {remaining}')
                    continue
                # reference: same netlist with the reordered input list and the input retyped
                g2 = dict(net.gates)
                g2[lab] = ('ALWAYS_TRUE' if val else 'ALWAYS_FALSE', ())
                want = refmodel.Net(remaining, net.outputs, g2).out_tables()
                got = refmodel.abstract(c)
                try:
                    gv = got.out_tables()
                except Exception as e:  # noqa: BLE001
                    acc.violation('replace_inputs/result-not-evaluable', case, repr(e))
                    continue
                if gv != want:
                    acc.violation('replace_inputs/not-the-cofactor', case, f'inputs {got.inputs}')
                ok, tt = guarded(acc, 'replace_inputs/get_truth_table', case, c.get_truth_table)
                if ok and [refmodel.tt_from_rows(r_) for r_ in tt] != want:
                    acc.violation('replace_inputs/library-evaluation', case, '')


# -- remove_gate ----------------------------------------------------------------------

def check_remove(n, gates, outs, blk, acc, net, ref):
    from cirbo.core.circuit.exceptions import GateHasUsersError

    users = net.users()
    for l in net.gates:
        acc.transitions += 1
        acc.traces += 1
        case = lambda: {**space.spec_json(n, gates, outs), 'block': blk, 'op': ['remove_gate', l]}  # noqa: E731
        c = _build(n, gates, outs, blk)
        try:
            c.remove_gate(l)
            removed = True
        except GateHasUsersError:
            removed = False
        except Exception as e:  # noqa: BLE001
            acc.violation(f'remove_gate/raises-{type(e).__name__}', case, repr(e))
            continue
        if removed != (not users[l]):
            acc.violation('remove_gate/succeeds-iff-unused', case, f'removed={removed} users={users[l]}')
            continue
        if removed:
            got = refmodel.abstract(c)
            if l in got.gates or l in got.outputs or l in got.inputs:
                acc.violation('remove_gate/gate-still-referenced', case, got.to_json())
                continue
            if got.outputs != [o for o in net.outputs if o != l] or got.inputs != [i for i in net.inputs if i != l]:
                acc.violation('remove_gate/interface', case, f'{got.inputs} {got.outputs}')
            if {k: v for k, v in got.gates.items()} != {k: v for k, v in net.gates.items() if k != l}:
                acc.violation('remove_gate/other-gates-changed', case, '')
            probs = refmodel.wellformed(c)
            if probs:
                acc.violation('remove_gate/ill-formed', case, probs[:3])
        acc.outcome('op', ('remove', removed))


# -- replace_subcircuit ---------------------------------------------------------------

def slice_of(net, I, O):
    """Gates strictly between I and O (O included), or None if the backward traversal from O
    reaches a primary input outside I."""
    seen = set()
    stack = [o for o in O]
    while stack:
        x = stack.pop()
        if x in seen or x in I:
            continue
        seen.add(x)
        if net.gates[x][0] == 'INPUT':
            return None
        stack.extend(net.gates[x][1])
    return seen


def mux_net(tables, nin, prefix):
    """Canonical re-synthesis: one mux tree per output over inputs prefix+'i0'.. ."""
    g = {}
    ins = [f'{prefix}i{j}' for j in range(nin)]
    for i in ins:
        g[i] = ('INPUT', ())
    cnt = [0]

    def fresh():
        cnt[0] += 1
        return f'{prefix}m{cnt[0]}'

    def build(tt, depth):
        # tt: list of bools of length 2**(nin-depth), variable `depth` is the most significant
        if all(tt) or not any(tt):
            l = fresh()
            g[l] = ('ALWAYS_TRUE' if tt[0] else 'ALWAYS_FALSE', ())
            return l
        half = len(tt) // 2
        f0 = build(tt[:half], depth + 1)
        f1 = build(tt[half:], depth + 1)
        x = ins[depth]
        nx = fresh()
        g[nx] = ('NOT', (x,))
        a = fresh()
        g[a] = ('AND', (x, f1))
        b = fresh()
        g[b] = ('AND', (nx, f0))
        o = fresh()
        g[o] = ('OR', (a, b))
        return o

    outs = [build(tt, 0) for tt in tables]
    return refmodel.Net(ins, outs, g)


def replacements(net, I, O, sl):
    """Yield (tag, sub Net, inputs_mapping, outputs_mapping) of equivalent replacements."""
    I, O = list(I), list(O)
    # slice function over free I
    nin = len(I)
    iv = refmodel.input_vectors_cached(nin)
    mask = (1 << (1 << nin)) - 1
    order = [k for k in net.topo() if k in sl]
    val = {i: iv[j] for j, i in enumerate(I)}
    for k in order:
        t, ops = net.gates[k]
        val[k] = refmodel.gate_fn(t, [val[o] for o in ops], mask)
    for style in ('kept', 'fresh'):
        name = (lambda x: x) if style == 'kept' else (lambda x: 'R_' + x)
        # r1: copy of the slice (internal gates always get fresh labels)
        ren = {}
        for i in I:
            ren[i] = name(i)
        for k in order:
            ren[k] = name(k) if k in O else 'S_' + k
        g = {ren[i]: ('INPUT', ()) for i in I}
        for k in order:
            t, ops = net.gates[k]
            g[ren[k]] = (t, tuple(ren[o] for o in ops))
        sub = refmodel.Net([ren[i] for i in I], [ren[o] for o in O], g)
        yield f'copy/{style}', sub, {i: ren[i] for i in I}, {o: ren[o] for o in O}
        # r3: double negation behind every output
        g3 = dict(g)
        omap = {}
        for o in O:
            inner = 'S_in_' + o
            g3[inner] = g3.pop(ren[o])
            # re-point users inside the copy
            for k2, (t2, ops2) in list(g3.items()):
                g3[k2] = (t2, tuple(inner if x == ren[o] else x for x in ops2))
            g3['S_n_' + o] = ('NOT', (inner,))
            g3[ren[o]] = ('NOT', ('S_n_' + o,))
            omap[o] = ren[o]
        sub3 = refmodel.Net([ren[i] for i in I], [ren[o] for o in O], g3)
        yield f'dneg/{style}', sub3, {i: ren[i] for i in I}, omap
        # r4: the copy, but the first output additionally reads EVERY declared slice input twice (XOR(f, i, i) = f):
        # an equivalent replacement that depends structurally on all of I - if some i is itself a user of an
        # output the replacement would close a loop and must be refused
        if I and style == 'kept':
            g4 = dict(g)
            o0 = O[0]
            inner = 'S_v_' + o0
            g4[inner] = g4.pop(ren[o0])
            for k2, (t2, ops2) in list(g4.items()):
                g4[k2] = (t2, tuple(inner if x == ren[o0] else x for x in ops2))
            cur = inner
            for j, i in enumerate(I):
                nxt = ren[o0] if j == len(I) - 1 else f'S_v{j}_' + o0
                g4[nxt] = ('XOR', (cur, ren[i], ren[i]))
                cur = nxt
            sub4 = refmodel.Net([ren[i] for i in I], [ren[o] for o in O], g4)
            yield f'vacuous/{style}', sub4, {i: ren[i] for i in I}, {o: ren[o] for o in O}
        # r2: canonical re-synthesis
        tabs = [refmodel.tt_rows(val[o], nin) for o in O]
        mx = mux_net(tabs, nin, 'M_')
        # rename boundary
        rmap = {f'M_i{j}': name(i) if style == 'kept' else 'R_' + i for j, i in enumerate(I)}
        for j, o in enumerate(O):
            # an output root may be shared between two outputs (equal functions): add a buffer
            pass
        g2 = {}
        for k2, (t2, ops2) in mx.gates.items():
            g2[rmap.get(k2, k2)] = (t2, tuple(rmap.get(x, x) for x in ops2))
        out_labels = []
        for j, o in enumerate(O):
            ol = name(o) if style == 'kept' else 'R_' + o
            g2[ol] = ('IFF', (rmap.get(mx.outputs[j], mx.outputs[j]),))
            out_labels.append(ol)
        sub2 = refmodel.Net([rmap[f'M_i{j}'] for j in range(nin)], out_labels, g2)
        yield f'mux/{style}', sub2, {i: rmap[f'M_i{j}'] for j, i in enumerate(I)}, {o: ol for o, ol in zip(O, out_labels)}


def check_replace_subcircuit(n, gates, outs, blk, acc, net, ref, only=None, tags=None):
    from cirbo.core.circuit.exceptions import CircuitError

    labs = list(net.gates)
    p = len(labs)
    maxI = 3 if p <= 4 else 2
    want_out = [ref[o] for o in net.outputs]
    for ri in range(0, maxI + 1):
        for I in itertools.combinations(labs, ri):
            rest = [l for l in labs if l not in I]
            for ro in (1, 2):
                for O in itertools.combinations(rest, ro):
                    sl = slice_of(net, set(I), O)
                    if sl is None:
                        acc.count('slice_not_cut_bounded')
                        _check_unbounded_slice(n, gates, outs, blk, acc, net, I, O)
                        continue
                    for tag, sub, imap, omap in replacements(net, I, O, sl):
                        if only is not None and only != [list(I), list(O), tag]:
                            continue
                        if tags is not None and tag not in tags:
                            continue
                        acc.transitions += 1
                        acc.traces += 1
                        case = lambda: {**space.spec_json(n, gates, outs), 'block': blk, 'I': list(I), 'O': list(O), 'replacement': tag}  # noqa: E731
                        c = _build(n, gates, outs, blk)
                        try:
                            subc = space.build_from_net(sub)
                        except Exception as e:  # noqa: BLE001
                            acc.violation('harness/replacement-build', case, repr(e))
                            continue
                        try:
                            r = c.replace_subcircuit(subc, dict(imap), dict(omap))
                        except CircuitError as e:
                            acc.count(f'rs_raises:{type(e).__name__}')
                            acc.outcome('op', ('replace_subcircuit', 'raises', type(e).__name__))
                            continue
                        except Exception as e:  # noqa: BLE001
                            acc.violation(f'replace_subcircuit/raises-{type(e).__name__}', case, repr(e), {'replacement': tag.split('/')[0]})
                            continue
                        acc.count('rs_ok')
                        probs = refmodel.wellformed(c)
                        if probs:
                            acc.violation('replace_subcircuit/ill-formed', case, probs[:3], {'replacement': tag.split('/')[0]})
                            continue
                        got = refmodel.abstract(c)
                        if len(got.inputs) != n or len(got.outputs) != len(net.outputs):
                            acc.violation('replace_subcircuit/interface-size', case, f'{got.inputs} {got.outputs}')
                            continue
                        # inputs keep their positions (possibly under the replacement's label)
                        exp_in = [imap.get(i, i) for i in net.inputs]
                        if got.inputs != exp_in:
                            acc.violation('replace_subcircuit/input-order', case, f'{got.inputs} expected {exp_in}')
                            continue
                        try:
                            gv = got.out_tables()
                        except Exception as e:  # noqa: BLE001
                            acc.violation('replace_subcircuit/result-not-evaluable', case, repr(e))
                            continue
                        if gv != want_out:
                            acc.violation('replace_subcircuit/truth-table-changed', case, f'result {got.to_json()}', {'replacement': tag.split('/')[0]})
                        # the replacement circuit stays the caller's: re-labelling it afterwards must not reach the host
                        try:
                            inner = [g_ for g_ in subc.gates if g_ not in subc.inputs]
                            if inner:
                                subc.rename_gate(inner[0], 'zz_template_relabelled')
                            if subc.inputs:
                                subc.rename_gate(subc.inputs[0], 'zz_template_input')
                        except Exception:  # noqa: BLE001
                            pass
                        else:
                            if refmodel.abstract(c).key() != got.key() or refmodel.wellformed(c):
                                acc.violation('replace_subcircuit/host-shares-state-with-the-replacement-circuit', case, '', {'replacement': tag.split('/')[0]})
                        acc.outcome('op', ('replace_subcircuit', 'ok', tag))


def _check_unbounded_slice(n, gates, outs, blk, acc, net, I, O):
    """The cone of O reaches a primary input that is not in I, but only vacuously, so that a replacement over I
    alone IS functionally equivalent: the call either raises a documented error (CreateBlockError) or keeps
    the whole circuit's table - in particular it never quietly swallows that input."""
    from cirbo.core.circuit.exceptions import CircuitError

    if len(O) != 1 or len(I) > 1:
        return
    o = O[0]
    if o in net.inputs:
        return
    # the property speaks about functionally equivalent replacements only: the cone's dependence on the
    # inputs outside I must be vacuous (GT(x,x), XOR(x,x), AND(y, OR(y,x)) ...)
    tabs = net.tables()
    if tabs[o] != (tabs[I[0]] if I else 0):
        return
    acc.count('unbounded_slice_with_equivalent_replacement')
    acc.transitions += 1
    case = lambda: {**space.spec_json(n, gates, outs), 'block': blk, 'I': list(I), 'O': list(O), 'replacement': 'buffer-of-first-input'}  # noqa: E731
    c = _build(n, gates, outs, blk)
    # replacement: output = buffer of the (single) mapped input, or a constant when I is empty
    gl = [[i, 'INPUT', []] for i in I] + [[o, 'IFF', [I[0]]] if I else [o, 'ALWAYS_FALSE', []]]
    sub = refmodel.Net.from_json({'inputs': list(I), 'outputs': [o], 'gates': gl, 'blocks': {}})
    try:
        c.replace_subcircuit(space.build_from_net(sub), {i: i for i in I}, {o: o})
    except CircuitError:
        return
    except Exception as e:  # noqa: BLE001
        acc.violation(f'replace_subcircuit/raises-{type(e).__name__}', case, repr(e))
        return
    got = refmodel.abstract(c)
    if len(got.inputs) != n:
        acc.violation('replace_subcircuit/accepts-slice-that-is-not-cut-bounded-and-drops-an-input', case, f'inputs now {got.inputs}')


def _blocks_of(n, gates, blk):
    if not blk or not gates:
        return {}
    last = space.label(n, n + len(gates) - 1)
    if n:
        x0 = space.label(n, 0)
        return {'K': ([x0], [last], [last, x0])}
    return {'K': ([], [last], [last])}


OBJECT_VARIANT = [None]  # None | 'deepcopy' | 'pickle': which Python object the operations are applied to


def _build(n, gates, outs, blk):
    c = _build0(n, gates, outs, blk)
    if OBJECT_VARIANT[0] is not None:
        c = dict(space.identity_variants(c))[OBJECT_VARIANT[0]]
    return c


def _build0(n, gates, outs, blk):
    c = space.build(n, gates, outs)
    if blk and gates:
        last = space.label(n, n + len(gates) - 1)
        if n:
            x0 = space.label(n, 0)
            c.make_block('K', [last], [last, x0], [x0])
        else:
            c.make_block('K', [last], [last], [])
    return c


def check_circuit(n, gates, acc, pol, rs_only=False, alpha=None):
    from vmc.props import c03

    k = len(gates)
    if rs_only:
        outs = (n + len(gates) - 1,)
        net = space.spec_net(n, gates, outs)
        acc.states += 1
        check_replace_subcircuit(n, gates, outs, False, acc, net, net.tables(), tags=('copy/kept', 'dneg/fresh'))
        return

    k = len(gates)
    if pol == 'all':
        pols = space.output_policies(n, k, 2, gates=gates)
    elif pol == 'core':
        pols = c03.core_policies(n, k, gates)
    else:
        pols = [(n + k - 1,), (n + k - 1, 0), ()]
    for outs in pols:
        net = space.spec_net(n, gates, outs)
        ref = net.tables()
        for blk in (False, True):
            acc.states += 1
            check_rename(n, gates, outs, blk, acc, net, ref)
            check_replace_inputs(n, gates, outs, blk, acc, net, ref)
            check_remove(n, gates, outs, blk, acc, net, ref)
            check_replace_subcircuit(n, gates, outs, blk, acc, net, ref)
        if n + k <= 3:
            # the same operations on copy.deepcopy / pickle copies of the circuit object
            for variant in ('deepcopy', 'pickle'):
                OBJECT_VARIANT[0] = variant
                try:
                    check_rename(n, gates, outs, True, acc, net, ref)
                    check_replace_inputs(n, gates, outs, True, acc, net, ref)
                    check_remove(n, gates, outs, True, acc, net, ref)
                    check_replace_subcircuit(n, gates, outs, True, acc, net, ref)
                finally:
                    OBJECT_VARIANT[0] = None
    acc.sample({**space.spec_json(n, gates, pols[0]), 'block': True, 'I': ['x0'], 'O': [space.label(n, n + k - 1)], 'replacement': 'mux/fresh'})


def check_deep(acc, pattern, L, storage):
    """rename / fix inputs / remove on a chain deeper than the recursion limit"""
    from cirbo.core.circuit.exceptions import CircuitError

    base_case = {'deep_chain': pattern, 'length': L, 'storage': storage}
    # rename: an inner gate, the last gate, an input with a thousand users
    for old in (f'c{L // 2}', f'c{L - 1}', 'x1', 'x0'):
        c, net = space.deep_chain(pattern, L, storage)
        ref = net.tables()
        case = {**base_case, 'op': ['rename_gate', old, 'zz_new']}
        acc.states += 1
        acc.transitions += 1
        acc.traces += 1
        ok, _ = guarded(acc, 'rename_gate', case, c.rename_gate, old, 'zz_new')
        if not ok:
            continue
        sub = lambda x: 'zz_new' if x == old else x  # noqa: E731
        got = refmodel.abstract(c)
        want_gates = {sub(k): (t, tuple(sub(o) for o in ops)) for k, (t, ops) in net.gates.items()}
        if got.gates != want_gates or got.inputs != [sub(i) for i in net.inputs] or got.outputs != [sub(o) for o in net.outputs]:
            acc.violation('rename_gate/references-not-renamed', case, '')
            continue
        if refmodel.wellformed(c, deep=False):
            acc.violation('rename_gate/ill-formed', case, refmodel.wellformed(c, deep=False)[:2])
            continue
        gt = got.tables()
        if any(gt[sub(k)] != ref[k] for k in net.gates):
            acc.violation('rename_gate/truth-table-changed', case, '')
    # fix x1 := True, x2 := False: the cofactor over x0
    c, net = space.deep_chain(pattern, L, storage)
    ref = net.tables()
    case = {**base_case, 'op': ['replace_inputs', ['x1'], ['x2']]}
    acc.transitions += 1
    ok, _ = guarded(acc, 'replace_inputs', case, c.replace_inputs, ['x1'], ['x2'])
    if ok:
        got = refmodel.abstract(c)
        if got.inputs != ['x0'] or got.outputs != net.outputs or refmodel.wellformed(c, deep=False):
            acc.violation('replace_inputs/remaining-inputs', case, f'{got.inputs}')
        else:
            gv = got.out_tables()
            want = []
            for o in net.outputs:
                v = 0
                for b in (0, 1):
                    if (ref[o] >> (b * 4 + 2)) & 1:
                        v |= 1 << b
                want.append(v)
            if gv != want:
                acc.violation('replace_inputs/not-the-cofactor', case, f'got {gv} expected {want}')
    # remove: a used gate must be refused, the unused last gate (no longer an output) removed
    c, net = space.deep_chain(pattern, L, storage, outputs='last')
    case = {**base_case, 'op': ['remove_gate', f'c{L // 2}']}
    acc.transitions += 2
    try:
        c.remove_gate(f'c{L // 2}')
        acc.violation('remove_gate/removes-a-used-gate', case, '')
    except CircuitError:
        pass
    except Exception as e:  # noqa: BLE001
        acc.violation(f'remove_gate/raises-{type(e).__name__}', case, repr(e)[:200])
    try:
        c.remove_gate(f'c{L - 1}')
        g2 = refmodel.abstract(c)
        if f'c{L - 1}' in g2.gates or g2.outputs or refmodel.wellformed(c, deep=False):
            acc.violation('remove_gate/incomplete', {**base_case, 'op': ['remove_gate', f'c{L - 1}']}, f'{g2.outputs}')
    except Exception as e:  # noqa: BLE001
        acc.violation(f'remove_gate/raises-{type(e).__name__}', {**base_case, 'op': ['remove_gate', f'c{L - 1}']}, repr(e)[:200])
    acc.outcome('op', ('deep', pattern))


def check_rename_chains(n, gates, outs, acc):
    """Every sequence of three renames over the inputs and the first gate, with new labels drawn from the freed
    ones and two fresh ones (a label freed by one rename is re-used by the next): netlist model after every
    step."""
    labs = space.labels(n, len(gates))
    nodes = labs[:n] + labs[n:n + 1]
    pool = nodes + ['t', 'z']
    net0 = space.spec_net(n, gates, outs)
    ref0 = net0.tables()
    for seq in itertools.product(range(len(nodes)), pool, range(len(nodes)), pool, range(len(nodes)), pool):
        # positions refer to "the node that currently sits at this original position"
        cur = list(nodes)
        steps = []
        ok_seq = True
        for i in range(0, 6, 2):
            pos, new = seq[i], seq[i + 1]
            old = cur[pos]
            if new == old or new in cur or new in labs and new not in nodes:
                ok_seq = False
                break
            steps.append((old, new))
            cur[pos] = new
        if not ok_seq or steps[0][1] not in ('t',) or not any(nw in nodes for _, nw in steps[1:]):
            continue  # keep the sequences that free a label first and re-use a freed label later
        acc.states += 1
        acc.traces += 1
        c = _build(n, gates, outs, False)
        case = lambda: {**space.spec_json(n, gates, outs), 'block': False, 'rename_chain': [list(s_) for s_ in steps]}  # noqa: E731
        ren = {}
        bad = False
        for old, new in steps:
            acc.transitions += 1
            try:
                c.rename_gate(old, new)
            except Exception as e:  # noqa: BLE001
                acc.violation(f'rename_gate/raises-{type(e).__name__}', case, repr(e)[:200])
                bad = True
                break
            orig = next((k_ for k_, v_ in ren.items() if v_ == old), old)
            ren[orig] = new
            sub = lambda x: ren.get(x, x)  # noqa: E731
            got = refmodel.abstract(c)
            want_inputs = [sub(i) for i in net0.inputs]
            want_gates = {sub(k_): (t, tuple(sub(o) for o in ops)) for k_, (t, ops) in net0.gates.items()}
            if got.inputs != want_inputs or got.gates != want_gates or got.outputs != [sub(o) for o in net0.outputs]:
                acc.violation('rename_gate/references-not-renamed', case, f'after {old}->{new}: inputs {got.inputs} expected {want_inputs}')
                bad = True
                break
            if refmodel.wellformed(c, deep=False):
                acc.violation('rename_gate/ill-formed', case, refmodel.wellformed(c, deep=False)[:2])
                bad = True
                break
        if not bad:
            gt = refmodel.abstract(c).tables()
            if any(gt[ren.get(k_, k_)] != ref0[k_] for k_ in net0.gates):
                acc.violation('rename_gate/truth-table-changed', case, '')


def run_task(task, acc):
    if task.get('kind') == 'deep':
        return check_deep(acc, task['pattern'], task['L'], task['storage'])
    if task.get('kind') == 'chains':
        for gates in space.enum_gates(task['n'], task['k'], CHAIN_ALPHA, space.prefix_from_task(task)):
            check_rename_chains(task['n'], gates, (task['n'] + task['k'] - 1, 0), acc)
        return
    alpha = RS_ALPHA if task.get('rs_only') else ALPHA
    for gates in space.enum_gates(task['n'], task['k'], alpha, space.prefix_from_task(task)):
        check_circuit(task['n'], gates, acc, task['pol'], task.get('rs_only', False))


def replay(case, acc):
    if 'task' in case:
        return run_task(case['task'], acc)
    if 'deep_chain' in case:
        return check_deep(acc, case['deep_chain'], case['length'], case['storage'])
    if 'rename_chain' in case:
        n, gates, outs = space.spec_from_json(case)
        return check_rename_chains(n, gates, outs, acc)
    n, gates, outs = space.spec_from_json(case)
    net = space.spec_net(n, gates, outs)
    ref = net.tables()
    blk = case.get('block', False)
    if 'I' in case:
        return check_replace_subcircuit(n, gates, outs, blk, acc, net, ref, only=[case['I'], case['O'], case['replacement']])
    op = case.get('op', [''])[0]
    if op == 'rename_gate':
        return check_rename(n, gates, outs, blk, acc, net, ref)
    if op.startswith('replace_inputs'):
        return check_replace_inputs(n, gates, outs, blk, acc, net, ref)
    return check_remove(n, gates, outs, blk, acc, net, ref)
