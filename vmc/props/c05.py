"""C05 - the circuit-to-CNF reduction is exact.

E1 over F(n,k,A) x output policies x every selection of output indices; the model set S
of the produced CNF is computed by enumerating all 2^|vars| assignments (no solver), then
compared with reference evaluation.  is_circuit_satisfiable is run once per model the
environment (shim solver) could hand back.
"""

import itertools

from vmc import refmodel, space, vsat
from vmc.engine import guarded

ID = 'C05'
KO = (('ALWAYS_TRUE', 1), ('ALWAYS_FALSE', 2), ('ALWAYS_TRUE', 2), ('ALWAYS_FALSE', 1))
ALPHAS = {'KO': KO + space.alphabet('AND', 'GT', 'OR', 'NOT'),'FULL': space.FULL, 'FULL_NO3': space.FULL_NO3, 'S4': space.S4 + space.U}


def plan(tier):
    t = []
    fams = [(0, 1, 'FULL', 0), (1, 1, 'FULL', 0), (1, 2, 'FULL', 1), (2, 1, 'FULL', 1),
            (2, 2, 'FULL', 1), (3, 1, 'FULL', 1), (2, 1, 'S4', 1), (2, 2, 'KO', 1), (2, 3, 'KO', 2)]  # KO: constants that carry operands
    if tier == 'thorough':
        fams += [(3, 2, 'FULL', 1), (2, 3, 'FULL_NO3', 2), (3, 1, 'S4', 1), (1, 3, 'FULL', 2)]
    for lo in range(0, 64, 4):
        t.append({'kind': 'medium', 'lo': lo, 'hi': lo + 4})
    for pat in space.DEEP_PATTERNS:
        for L in space.DEEP_LENGTHS[tier][:2]:
            for st in ('fwd', 'rev'):
                t.append({'kind': 'deep', 'pattern': pat, 'L': L, 'storage': st})
    for pat in ('not-and', 'xor-nor') if tier == 'quick' else ('not-and', 'xor-nor', 'cmp', 'or3'):
        t.append({'kind': 'deep', 'pattern': pat, 'L': space.HUGE_LENGTH, 'storage': 'fwd'})
    for n, k, a, split in fams:
        for tk in space.tasks(n, k, ALPHAS[a], split):
            tk.update(alpha=a, pol='all' if (n + k <= 4 and tier == 'thorough') or n + k <= 3 else ('last2' if k >= 3 else 'core'))
            t.append(tk)
    return t


def describe(tier):
    return {
        'rule': 'huge: chains of 70000 gates (175k-280k clauses, beyond 2^16 / 2^17), solver handed exactly the reduction; deep: chains of 1200/3000 gates (deeper than the recursion limit), six patterns, both storage orders, through the solver-based medium check; medium: 12 arithmetic generator circuits (up to ~250 gates) and 44 chains over two inputs (every binary type, mixed types, NOT/IFF; lengths 10..14, 30, 126..128, 140, 300): for every input assignment and every single-output / all-output selection the CNF plus the assignment is satisfiable iff the outputs are True and has exactly one model (decided by the complete solver vsat with model enumeration). E1: every circuit of F(n,k,A) x output policy x selection of output indices (None, [], every '
        'index list of length<=2 incl. repeats); all 2^|vars| assignments of the produced CNF enumerated; '
        'is_circuit_satisfiable executed once per admissible solver answer (every model). A case = '
        '(circuit, outputs, selection); distinct = distinct (n, |vars|, |clauses|, |S|) outcomes.',
        'bounds': {
            'quick': 'F(0..2,<=2,FULL), F(3,1,FULL), F(2,1,4-ary) (core policies when n+k>3)',
            'thorough': '+ F(3,2,FULL), F(2,3,FULL\\S3), F(1,3,FULL), F(3,1,4-ary); all policies for n+k<=4',
        }[tier],
        'exhaustive': True,
        'assumptions': ['vmc.refmodel evaluator; brute-force CNF model enumeration (vsat.brute_models)'],
    }


def probe():
    from cirbo.sat.cnf import tseytin_transformation

    c = space.build(2, (('GT', (0, 1)), ('NXOR', (2, 0))), (3, 2))
    return tseytin_transformation(c).get_raw()


def selections(m):
    sel = [None, []]
    for ln in (1, 2):
        for s in itertools.product(range(m), repeat=ln):
            sel.append(list(s))
    return sel


def check_cnf(acc, case, raw, net, ref, n, sel_labels):
    """Exactness of one CNF against the reference. Returns the model list S (as ints)."""
    nv = n
    for cl in raw:
        for l in cl:
            if not isinstance(l, int) or l == 0:
                acc.violation('tseytin/bad-literal', case, repr(cl))
                return None
            if abs(l) > nv:
                nv = abs(l)
    if nv > 16:
        acc.violation('tseytin/too-many-variables', case, nv)
        return None
    S = vsat.brute_models(raw, nv)
    rows = 1 << n
    # (ii) projection on inputs == assignments where all selected outputs are True
    mask = (1 << rows) - 1
    want = mask
    for o in sel_labels:
        want &= ref[o]
    got = 0
    by_x = {}
    for a in S:
        # var i+1 is input i; assignment index j has input i at bit (n-1-i)
        j = 0
        for i in range(n):
            if (a >> i) & 1:
                j |= 1 << (n - 1 - i)
        got |= 1 << j
        by_x.setdefault(j, []).append(a)
    if got != want:
        acc.violation(
            'tseytin/satisfiable-iff-outputs-true',
            case,
            f'inputs with a model: {refmodel.tt_str(got, n)}; inputs with all selected outputs True: '
            f'{refmodel.tt_str(want, n)}; cnf={raw}',
        )
        return S
    # (iii) every gate in the cone of the selected outputs has a variable carrying its value
    if S:
        cone = net.reach_back(sel_labels)
        for g in cone:
            found = False
            for v in range(nv):
                ok = True
                for j, ms in by_x.items():
                    val = (ref[g] >> j) & 1
                    for a in ms:
                        if ((a >> v) & 1) != val:
                            ok = False
                            break
                    if not ok:
                        break
                if ok:
                    found = True
                    break
            if not found:
                acc.violation('tseytin/gate-value-not-encoded', case, f'gate {g}; cnf={raw}')
                break
    acc.outcome('cnf', (n, nv, len(raw), len(S)))
    return S


def check_one(n, gates, outs, acc, c=None, net0=None, ref=None, sels=None):
    from cirbo.sat import is_circuit_satisfiable
    from cirbo.sat.cnf import Cnf, tseytin_transformation
    import pysat.solvers as ps

    labs = space.labels(n, len(gates))
    if c is None:
        c = space.build(n, gates, outs)
        net0 = space.spec_net(n, gates)
        ref = net0.tables()
    olabs = [labs[o] for o in outs]
    net = refmodel.Net(net0.inputs, olabs, net0.gates)
    before = refmodel.abstract(c).key()
    for sel in sels if sels is not None else selections(len(outs)):
        case = lambda: {**space.spec_json(n, gates, outs), 'selection': sel}  # noqa: E731
        acc.transitions += 1
        acc.traces += 1
        sel_arg = None if sel is None else list(sel)  # the caller's own list object, used for two calls in a row
        ok, cnf = guarded(acc, 'tseytin_transformation', case, tseytin_transformation, c, sel_arg)
        if ok and sel is not None:
            if sel_arg != list(sel):
                acc.violation('tseytin_transformation/modifies-the-selection-list', case, f'{sel_arg}')
            else:
                ok2, cnf_again = guarded(acc, 'tseytin_transformation', case, tseytin_transformation, c, sel_arg)
                if ok2 and (cnf_again.get_raw() != cnf.get_raw() or sel_arg != list(sel)):
                    acc.violation('tseytin_transformation/second-call-with-the-same-list-differs', case, '')
        if not ok:
            continue
        sel_labels = olabs if sel is None else [olabs[i] for i in sel]
        S = check_cnf(acc, case, cnf.get_raw(), net, ref, n, sel_labels)
        if sel is None and S is not None:
            # Cnf.from_circuit is the same reduction
            ok, cnf2 = guarded(acc, 'Cnf.from_circuit', case, Cnf.from_circuit, c)
            if ok and cnf2.get_raw() != cnf.get_raw():
                acc.violation('Cnf.from_circuit/differs', case, '')
            if ok:
                # the returned formula is the caller's: edit it in place (negate a literal of every clause, drop the
                # last clause), then ask for the reduction of the same circuit again
                want_raw = [list(cl) for cl in cnf.get_raw()]
                try:
                    mine = cnf2.get_raw()
                    for cl in mine:
                        if cl:
                            cl[0] = -cl[0]
                    if mine:
                        mine.pop()
                    cnf3 = Cnf.from_circuit(c)
                    if [list(cl) for cl in cnf3.get_raw()] != want_raw:
                        acc.violation('Cnf.from_circuit/second-call-returns-the-edited-formula', case, '')
                except Exception as e:  # noqa: BLE001
                    acc.violation(f'Cnf.from_circuit/second-call-raises-{type(e).__name__}', case, repr(e)[:200])
            # solver hand-back, for every model the environment could return
            raw = cnf.get_raw()
            nv = max([n] + [abs(l) for cl in raw for l in cl])
            answers = [None] if not S else S
            for a in answers:
                model = None if a is None else [(v + 1) if (a >> v) & 1 else -(v + 1) for v in range(nv)]
                seen = []

                def chooser(clauses, nvars, model=model, seen=seen):
                    seen.append([list(x) for x in clauses])
                    if model is None:
                        return vsat.solve(clauses, nvars)
                    m = list(model[:nvars]) + [-(v) for v in range(len(model) + 1, nvars + 1)]
                    return m if vsat.check_model(clauses, m) else vsat.solve(clauses, nvars)

                ps.ENV.chooser = chooser
                acc.transitions += 1
                try:
                    res = is_circuit_satisfiable(c)
                except Exception as e:  # noqa: BLE001
                    acc.violation('is_circuit_satisfiable/raises', case, repr(e))
                    break
                finally:
                    ps.ENV.chooser = None
                if res.answer != bool(S):
                    acc.violation('is_circuit_satisfiable/wrong-answer', case, f'{res.answer} but |S|={len(S)}')
                    break
                if S:
                    m = res.model
                    if m is None or not vsat.check_model(raw, m):
                        acc.violation('is_circuit_satisfiable/model-not-a-model', case, f'{m}')
                        break
                    x = [(i + 1) in m for i in range(n)]
                    j = sum((1 << (n - 1 - i)) for i in range(n) if x[i])
                    if not all((ref[o] >> j) & 1 for o in olabs):
                        acc.violation('is_circuit_satisfiable/model-projection-not-satisfying', case, f'{m}')
                        break
                    if model is not None and seen and sorted(map(sorted, seen[0])) != sorted(map(sorted, raw)):
                        acc.violation('is_circuit_satisfiable/solver-given-different-cnf', case, '')
                        break
                elif res.model is not None:
                    acc.violation('is_circuit_satisfiable/model-for-unsat', case, f'{res.model}')
    if refmodel.abstract(c).key() != before:
        acc.violation('tseytin/argument-modified', lambda: space.spec_json(n, gates, outs), '')


def check_circuit(n, gates, acc, pol):
    from vmc.props import c03

    k = len(gates)
    if pol == 'last2':
        pols = [(n + k - 1,), (n + k - 1, 0), (n + k - 2, n + k - 1)]
    else:
        pols = space.output_policies(n, k, 2, gates=gates) if pol == 'all' else c03.core_policies(n, k, gates)
    labs = space.labels(n, k)
    net0 = space.spec_net(n, gates)
    ref = net0.tables()
    c = space.build(n, gates)
    for outs in pols:
        acc.states += 1
        c.set_outputs([labs[o] for o in outs])
        check_one(n, gates, outs, acc, c, net0, ref)
    acc.sample({**space.spec_json(n, gates, pols[-1]), 'selection': None})


def medium_circuits():
    """(name, circuit) - structured circuits beyond the E1 bound: arithmetic generators and long chains."""
    import cirbo.synthesis.generation.arithmetics as A
    from cirbo.core.circuit import Circuit, gate as G
    from cirbo.synthesis.generation.generation import generate_plus_one

    out = []
    for n in (3, 5, 7):
        out.append((f'sum_n_bits({n})', A.generate_sum_n_bits(n)))
    out.append(('sum_n_bits(6,aig)', A.generate_sum_n_bits(6, basis='AIG')))
    for a, b in ((2, 2), (3, 3), (4, 4), (5, 5), (6, 4)):
        out.append((f'mul({a},{b})', A.generate_mul(a, b)))
    out.append(('mul_dadda(4,4)', A.generate_mul(4, 4, type=A.MulMode.DADDA)))
    out.append(('plus_one(5,6)', generate_plus_one(5, 6)))
    out.append(('sub(4,3)', A.generate_sub_two_numbers(4, 3)))
    out.append(('div_mod(3)', A.generate_div_mod(3)))
    out.append(('sqrt(6)', A.generate_sqrt(6)))
    # chains over two inputs: every gate type repeated, and a mixed pattern; lengths around 12 and 128 labels
    types2 = ('AND', 'OR', 'XOR', 'NAND', 'NOR', 'NXOR', 'GT', 'LT', 'GEQ', 'LEQ', 'LNOT', 'RNOT', 'LIFF', 'RIFF')
    for L in (10, 11, 12, 13, 14, 30, 126, 127, 128, 140, 300):
        for pattern in ('mixed', 'NOT-IFF', 'XOR', 'GT'):
            c = Circuit()
            c.add_inputs(['x0', 'x1'])
            prev = 'x0'
            for i in range(L):
                lab = f'c{i}'
                if pattern == 'mixed':
                    t = types2[i % len(types2)]
                    c.emplace_gate(lab, getattr(G, t), (prev, 'x1' if i % 3 else 'x0'))
                elif pattern == 'NOT-IFF':
                    c.emplace_gate(lab, G.NOT if i % 2 else G.IFF, (prev,))
                else:
                    c.emplace_gate(lab, getattr(G, pattern), (prev, 'x1'))
                prev = lab
            c.emplace_gate('out', G.AND, (prev, 'x0'))
            c.emplace_gate('out2', G.XOR, (prev, 'c0'))
            c.set_outputs(['out', 'out2', prev])
            out.append((f'chain({pattern},{L})', c))
    return out


def check_medium(acc, name, c):
    """Beyond brute force over all CNF variables: for every total input assignment x and every selection in
    {each single output, all outputs}: CNF + x is satisfiable iff the selected outputs are True at x, and then
    it has exactly ONE model (every variable is determined by the inputs)."""
    from cirbo.sat.cnf import tseytin_transformation

    net = refmodel.abstract(c)
    n = len(net.inputs)
    ref = net.tables()
    sels = [[i] for i in range(len(net.outputs))] + [None]
    for sel in sels:
        acc.states += 1
        acc.traces += 1
        acc.transitions += 1
        case = {'medium': name, 'selection': sel}
        try:
            raw = tseytin_transformation(c, sel).get_raw()
        except Exception as e:  # noqa: BLE001
            acc.violation(f'tseytin_transformation/raises-{type(e).__name__}', case, repr(e)[:200])
            continue
        nv = max([n] + [abs(l) for cl in raw for l in cl])
        olabs = net.outputs if sel is None else [net.outputs[i] for i in sel]
        for j in range(1 << n):
            units = [[(i + 1) if (j >> (n - 1 - i)) & 1 else -(i + 1)] for i in range(n)]
            want = all((ref[o] >> j) & 1 for o in olabs)
            acc.transitions += 1
            ms = []
            for m in vsat.iter_models_proj(raw + units, nv, list(range(1, nv + 1))):
                ms.append(m)
                if len(ms) >= 2:
                    break
            if bool(ms) != want:
                acc.violation('tseytin/satisfiable-iff-outputs-true', case, f'input row {j}: models={len(ms)} outputs-true={want}', {'medium': True})
                break
            if len(ms) > 1:
                acc.violation('tseytin/extension-not-unique', case, f'input row {j}: a variable is not determined by the inputs', {'medium': True})
                break
        acc.outcome('cnf', ('medium', name.split('(')[0], nv > 128))
        if sel is None:
            # the satisfiability query: the solver must be handed exactly this formula, and the answer / model
            # must be right
            import pysat.solvers as ps
            from cirbo.sat import is_circuit_satisfiable

            seen = []

            def chooser(clauses, nvars, seen=seen):
                seen.append(clauses)
                return vsat.solve(clauses, nvars)

            ps.ENV.chooser = chooser
            acc.transitions += 1
            try:
                res = is_circuit_satisfiable(c)
            except Exception as e:  # noqa: BLE001
                acc.violation(f'is_circuit_satisfiable/raises-{type(e).__name__}', case, repr(e)[:200], {'medium': True})
                continue
            finally:
                ps.ENV.chooser = None
            want_any = any(all((ref[o] >> j) & 1 for o in net.outputs) for j in range(1 << n))
            if seen and sorted(tuple(sorted(cl)) for cl in seen[0]) != sorted(tuple(sorted(cl)) for cl in raw):
                acc.violation('is_circuit_satisfiable/solver-given-different-cnf', case, f'{len(seen[0])} clauses handed over, the reduction has {len(raw)}', {'medium': True})
            if res.answer != want_any:
                acc.violation('is_circuit_satisfiable/wrong-answer', case, f'{res.answer}', {'medium': True})
            elif res.answer:
                m = res.model
                x = [(i + 1) in m for i in range(n)] if m is not None else None
                j = sum((1 << (n - 1 - i)) for i in range(n) if x[i]) if x is not None else 0
                if m is None or not vsat.check_model(raw, m) or not all((ref[o] >> j) & 1 for o in net.outputs):
                    acc.violation('is_circuit_satisfiable/model-projection-not-satisfying', case, '', {'medium': True})
    acc.sample({'medium': name, 'selection': None})


def run_task(task, acc):
    if task.get('kind') == 'deep':
        c, _ = space.deep_chain(task['pattern'], task['L'], task['storage'])
        return check_medium(acc, f"deep_chain({task['pattern']},{task['L']},{task['storage']})", c)
    if task.get('kind') == 'medium':
        from vmc import boot

        boot.uuid_counter.reset()
        lst = medium_circuits()
        for name, c in lst[task['lo']:task['hi']]:
            check_medium(acc, name, c)
        return
    alpha = ALPHAS[task['alpha']]
    for gates in space.enum_gates(task['n'], task['k'], alpha, space.prefix_from_task(task)):
        check_circuit(task['n'], gates, acc, task['pol'])


def replay(case, acc):
    if 'task' in case:
        return run_task(case['task'], acc)
    if str(case.get('medium', '')).startswith('deep_chain('):
        pat, L, st = case['medium'][len('deep_chain('):-1].split(',')
        c, _ = space.deep_chain(pat, int(L), st)
        return check_medium(acc, case['medium'], c)
    if 'medium' in case:
        from vmc import boot

        boot.uuid_counter.reset()
        for name, c in medium_circuits():
            if name == case['medium']:
                check_medium(acc, name, c)
        return
    n, gates, outs = space.spec_from_json(case)
    check_one(n, gates, outs, acc, sels=[case.get('selection')])
