"""Reference model: denotational gate semantics, plain netlists, bit-parallel evaluation.

Written from the statements of the properties (C01 in particular); shares no
code with cirbo.  A truth table over n inputs is a Python int used as a vector
of 2**n bits: bit j is the value under assignment number j, where assignment j
gives input i (0-based, in the circuit's input order) the bit
``(j >> (n-1-i)) & 1`` (the first input is the most significant one, i.e. the
order of itertools.product((False, True), repeat=n)).
"""

import itertools

SYM = ('AND', 'OR', 'XOR', 'NAND', 'NOR', 'NXOR')
CMP = ('GT', 'LT', 'GEQ', 'LEQ')
LR = ('LNOT', 'RNOT', 'LIFF', 'RIFF')
UNARY = ('NOT', 'IFF')
CONST = ('ALWAYS_TRUE', 'ALWAYS_FALSE')
ALL_TYPES = UNARY + SYM + CMP + LR + CONST
SYMMETRIC_TYPES = frozenset(SYM + UNARY + CONST + ('INPUT',))


def gate_fn(tname, ops, mask):
    """Value of a gate of type `tname` on operand bit-vectors `ops`."""
    if tname == 'AND' or tname == 'NAND':
        r = mask
        for o in ops:
            r &= o
        return r if tname == 'AND' else r ^ mask
    if tname == 'OR' or tname == 'NOR':
        r = 0
        for o in ops:
            r |= o
        return r if tname == 'OR' else r ^ mask
    if tname == 'XOR' or tname == 'NXOR':
        r = 0
        for o in ops:
            r ^= o
        return r if tname == 'XOR' else r ^ mask
    if tname == 'NOT':
        return ops[0] ^ mask
    if tname == 'IFF':
        return ops[0]
    if tname == 'GT':
        return ops[0] & (ops[1] ^ mask)
    if tname == 'LT':
        return (ops[0] ^ mask) & ops[1]
    if tname == 'GEQ':
        return ops[0] | (ops[1] ^ mask)
    if tname == 'LEQ':
        return (ops[0] ^ mask) | ops[1]
    if tname == 'LNOT':
        return ops[0] ^ mask
    if tname == 'RNOT':
        return ops[1] ^ mask
    if tname == 'LIFF':
        return ops[0]
    if tname == 'RIFF':
        return ops[1]
    if tname == 'ALWAYS_TRUE':
        return mask
    if tname == 'ALWAYS_FALSE':
        return 0
    raise KeyError(tname)


def gate_bool(tname, vals):
    """Same table on plain booleans."""
    return bool(gate_fn(tname, [1 if v else 0 for v in vals], 1))


def input_vectors(n):
    """Bit-vectors of the n inputs over all 2**n assignments (built by doubling)."""
    rows = 1 << n
    vecs = []
    for i in range(n):
        sh = n - 1 - i
        block = 1 << sh  # run length: `block` zeros then `block` ones
        v = ((1 << block) - 1) << block
        width = 2 * block
        while width < rows:
            v |= v << width
            width *= 2
        vecs.append(v)
    return vecs


_IV_CACHE = {}


def input_vectors_cached(n):
    r = _IV_CACHE.get(n)
    if r is None:
        r = _IV_CACHE[n] = input_vectors(n)
    return r


class Net:
    """A plain netlist. gates: dict label -> (type_name, operands); INPUT gates included
    with type 'INPUT'.  Insertion order of `gates` is the storage order."""

    __slots__ = ('inputs', 'outputs', 'gates', 'blocks')

    def __init__(self, inputs=(), outputs=(), gates=None, blocks=None):
        self.inputs = list(inputs)
        self.outputs = list(outputs)
        self.gates = dict(gates or {})
        self.blocks = dict(blocks or {})

    def copy(self):
        return Net(
            self.inputs,
            self.outputs,
            self.gates,
            {k: (list(a), list(b), list(c)) for k, (a, b, c) in self.blocks.items()},
        )

    def key(self):
        return (
            tuple(self.inputs),
            tuple(self.outputs),
            tuple((k, v[0], tuple(v[1])) for k, v in self.gates.items()),
            tuple(
                sorted(
                    (k, tuple(a), tuple(sorted(b)), tuple(c))
                    for k, (a, b, c) in self.blocks.items()
                )
            ),
        )

    def to_json(self):
        return {
            'inputs': list(self.inputs),
            'outputs': list(self.outputs),
            'gates': [[k, v[0], list(v[1])] for k, v in self.gates.items()],
            'blocks': {k: [list(a), list(b), list(c)] for k, (a, b, c) in self.blocks.items()},
        }

    @staticmethod
    def from_json(d):
        return Net(
            d['inputs'],
            d['outputs'],
            {g[0]: (g[1], tuple(g[2])) for g in d['gates']},
            {k: (list(v[0]), list(v[1]), list(v[2])) for k, v in d.get('blocks', {}).items()},
        )

    # -- structure -------------------------------------------------------
    def users(self):
        """label -> list (multiset) of users."""
        u = {k: [] for k in self.gates}
        for k, (_, ops) in self.gates.items():
            for o in ops:
                if o in u:
                    u[o].append(k)
        return u

    def topo(self):
        """Kahn order (operands first); None if cyclic or dangling operand."""
        indeg = {}
        for k, (_, ops) in self.gates.items():
            for o in ops:
                if o not in self.gates:
                    return None
            indeg[k] = len(ops)
        us = self.users()
        ready = [k for k, d in indeg.items() if d == 0]
        out = []
        while ready:
            k = ready.pop()
            out.append(k)
            for u in us[k]:
                indeg[u] -= 1
                if indeg[u] == 0:
                    ready.append(u)
        return out if len(out) == len(self.gates) else None

    def reach_back(self, starts):
        """Gates reachable from `starts` along operand edges (starts included)."""
        seen = set()
        stack = [s for s in starts]
        while stack:
            k = stack.pop()
            if k in seen:
                continue
            seen.add(k)
            stack.extend(self.gates[k][1])
        return seen

    def reach_fwd(self, starts):
        us = self.users()
        seen = set()
        stack = list(starts)
        while stack:
            k = stack.pop()
            if k in seen:
                continue
            seen.add(k)
            stack.extend(us[k])
        return seen

    def has_cycle_reachable_from(self, starts):
        """True iff some cycle is reachable from `starts` along operand edges."""
        color = {}
        for s in starts:
            if color.get(s, 0):
                continue
            stack = [(s, iter(self.gates[s][1]))]
            color[s] = 1
            while stack:
                k, it = stack[-1]
                adv = False
                for o in it:
                    c = color.get(o, 0)
                    if c == 1:
                        return True
                    if c == 0:
                        color[o] = 1
                        stack.append((o, iter(self.gates[o][1])))
                        adv = True
                        break
                if not adv:
                    color[k] = 2
                    stack.pop()
        return False

    # -- semantics -------------------------------------------------------
    def tables(self, input_vecs=None, mask=None, fixed=None):
        """label -> bit-vector for every gate. `input_vecs` defaults to all 2**n
        assignments of self.inputs. INPUT-typed gates not listed in self.inputs are an
        error. `fixed`: label -> vector overriding evaluation (assignment on a gate)."""
        n = len(self.inputs)
        if input_vecs is None:
            input_vecs = input_vectors_cached(n)
            mask = (1 << (1 << n)) - 1
        val = {}
        for lab, v in zip(self.inputs, input_vecs):
            val[lab] = v
        if fixed:
            val.update(fixed)
        order = self.topo()
        if order is None:
            raise ValueError('cyclic or dangling netlist')
        for k in order:
            if k in val:
                continue
            t, ops = self.gates[k]
            if t == 'INPUT':
                raise ValueError(f'INPUT gate {k} is not in the input list')
            val[k] = gate_fn(t, [val[o] for o in ops], mask)
        return val

    def out_tables(self):
        t = self.tables()
        return [t[o] for o in self.outputs]

    def size(self):
        return len(self.gates)


def tt_rows(vec, n):
    """bit-vector -> list of bools, assignment 0 first."""
    return [bool((vec >> j) & 1) for j in range(1 << n)]


def tt_from_rows(rows):
    v = 0
    for j, b in enumerate(rows):
        if b:
            v |= 1 << j
    return v


def tt_str(vec, n):
    return ''.join('1' if (vec >> j) & 1 else '0' for j in range(1 << n))


def assignments(n):
    return list(itertools.product((False, True), repeat=n))


# -- three-valued (Kleene by completion) ---------------------------------------


def gate_possible(tname, ops_sets):
    """ops_sets: list of frozensets of possible bools. Returns the set of possible
    results over all completions (derived by enumeration from gate_bool)."""
    res = set()
    for combo in itertools.product(*[sorted(s) for s in ops_sets]):
        res.add(gate_bool(tname, combo))
    return frozenset(res)


# -- binding to real circuits ----------------------------------------------------


def abstract(circuit):
    """Read a real cirbo Circuit through public accessors only."""
    gates = {}
    for lab, g in circuit.gates.items():
        gates[lab] = (g.gate_type.name, tuple(g.operands))
    blocks = {}
    for name, b in circuit.blocks.items():
        blocks[name] = (list(b.inputs), list(b.gates), list(b.outputs))
    return Net(list(circuit.inputs), list(circuit.outputs), gates, blocks)


def users_snapshot(circuit):
    return {lab: sorted(circuit.get_gate_users(lab)) for lab in circuit.gates}


def wellformed(circuit, deep=True):
    """C02's invariant on a real circuit. Returns a list of problem strings (empty = ok)."""
    problems = []
    net = abstract(circuit)
    for k, (t, ops) in net.gates.items():
        for o in ops:
            if o not in net.gates:
                problems.append(f'operand {o} of {k} does not exist')
    for o in net.outputs:
        if o not in net.gates:
            problems.append(f'output {o} does not exist')
    if problems:
        return problems
    exp_users = net.users()
    for k in net.gates:
        got = sorted(circuit.get_gate_users(k))
        if got != sorted(exp_users[k]):
            problems.append(f'users({k})={got} expected {sorted(exp_users[k])}')
    in_typed = [k for k, (t, _) in net.gates.items() if t == 'INPUT']
    if sorted(net.inputs) != sorted(in_typed) or len(set(net.inputs)) != len(net.inputs):
        problems.append(f'inputs {net.inputs} vs INPUT gates {in_typed}')
    for k, (t, ops) in net.gates.items():
        if t == 'INPUT' and ops:
            problems.append(f'INPUT gate {k} has operands')
    order = net.topo()
    if order is None:
        problems.append('operand graph is cyclic')
    for name, (bi, bg, bo) in net.blocks.items():
        for lab in list(bi) + list(bg):
            if lab not in net.gates:
                problems.append(f'block {name} names missing gate {lab}')
    if problems or not deep:
        return problems
    # topological iteration in both directions
    for inverse in (True, False):
        try:
            seq = [g.label for g in circuit.top_sort(inverse=inverse)]
        except Exception as e:  # noqa: BLE001
            problems.append(f'top_sort(inverse={inverse}) raised {type(e).__name__}')
            continue
        if sorted(seq) != sorted(net.gates):
            problems.append(f'top_sort(inverse={inverse}) yields {seq} for gates {list(net.gates)}')
            continue
        pos = {k: i for i, k in enumerate(seq)}
        for k, (_, ops) in net.gates.items():
            for o in ops:
                if (pos[o] > pos[k]) if inverse else (pos[o] < pos[k]):
                    problems.append(f'top_sort(inverse={inverse}) order violates {o}->{k}')
                    break
    return problems
