"""C04 - SAT-based subcircuit minimisation returns an equivalent, not larger circuit.

E1 over F(n,k,A04) (the 11 supported gate types) x output policies x bases x parameter
settings x E3: deviation-bounded enumeration of the environment's answers (solver model,
solver time-out, cut family / enumeration order, set iteration order).
"""

import itertools

from vmc import refmodel, space, vsat

ID = 'C04'
A04 = space.alphabet('NOT', 'AND', 'NAND', 'OR', 'NOR', 'XOR', 'NXOR', 'GEQ', 'LT', 'LEQ', 'GT')
A04S = space.alphabet('NOT', 'AND', 'OR', 'XOR', 'GT', 'NOR')
ALPHAS = {'A04': A04, 'A04S': A04S}

# designed-in shapes that reach each data-dependent branch (n, gates, outs)
SHAPES = [
    (2, (('AND', (0, 1)), ('OR', (2, 0))), (3,)),                       # cone output equals a leaf
    (2, (('AND', (0, 1)), ('NOR', (0, 2))), (3,)),                      # equals a negated leaf
    (2, (('AND', (0, 1)), ('NOR', (0, 2)), ('XOR', (3, 1))), (4,)),      # negated leaf with fan-out
    (2, (('AND', (0, 1)), ('OR', (2, 0)), ('XOR', (3, 1))), (4,)),       # equal leaf with fan-out
    (3, (('AND', (0, 1)), ('OR', (0, 1)), ('AND', (3, 4)), ('XOR', (5, 2))), (6,)),  # don't-care leaf combinations
    (2, (('XOR', (0, 1)), ('NXOR', (0, 1)), ('AND', (2, 3))), (4, 2, 3)),  # output and its negation
    (3, (('XOR', (0, 1)), ('XOR', (3, 2)), ('AND', (0, 1)), ('AND', (3, 2)), ('OR', (5, 6))), (4, 7)),  # full adder
    (3, (('AND', (0, 1)), ('AND', (3, 2)), ('AND', (0, 2)), ('AND', (5, 1)), ('OR', (4, 6))), (7,)),  # overlapping cones
    (2, (('NOT', (0,)), ('NOT', (2,)), ('AND', (3, 1)), ('OR', (4, 0))), (5,)),
    (3, (('GT', (0, 1)), ('LT', (0, 1)), ('OR', (3, 4)), ('GEQ', (5, 2)), ('LEQ', (5, 2)), ('NAND', (6, 7))), (8, 5)),
    # improvable cone with two non-trivial outputs (t and v; u is internal), both with fan-out
    (3, (('AND', (0, 1)), ('XOR', (0, 1)), ('OR', (3, 4)), ('XOR', (3, 2)), ('AND', (5, 2))), (6, 7)),
    (3, (('XOR', (0, 1)), ('AND', (0, 1)), ('OR', (4, 3)), ('AND', (5, 2)), ('XOR', (4, 2))), (6, 7)),
    (2, (('NAND', (0, 1)), ('OR', (0, 1)), ('AND', (2, 3)), ('NOR', (0, 1))), (4, 5, 3)),
    # correlated cut leaves (some leaf combinations never occur -> don't-care rows matter)
    (4, (('AND', (0, 1)), ('OR', (0, 2)), ('OR', (4, 3)), ('AND', (6, 5))), (7,)),
    (3, (('AND', (0, 1)), ('OR', (0, 1)), ('XOR', (3, 4)), ('AND', (5, 2)), ('OR', (6, 3))), (7,)),
    (3, (('GT', (0, 1)), ('OR', (0, 2)), ('XOR', (3, 4)), ('NOR', (5, 1))), (6, 5)),
    # trivial cone output (equals a leaf) listed several times among the circuit outputs
    (2, (('AND', (0, 1)), ('OR', (2, 0))), (3, 3)),
    (3, (('AND', (0, 1)), ('OR', (3, 0)), ('XOR', (1, 2))), (4, 5, 4)),
    # six inputs: cuts with six leaves exist once cut_size >= 6 (p, q, r over disjoint input pairs, improvable top)
    (6, (('AND', (0, 1)), ('OR', (2, 3)), ('XOR', (4, 5)), ('XOR', (6, 7)), ('AND', (7, 8)), ('OR', (9, 10)), ('XOR', (11, 6))), (12, 10)),
]
WIDE_SHAPES = {18}  # run with the wide-cut parameter sets only
WIDE6_TYPES = (('NAND', 'AND'), ('NOR', 'OR'), ('NXOR', 'XOR'), ('XOR', 'NXOR'), ('AND', 'GT', 'NOR'))  # 48 typings of the six-input shape


class PSet(set):
    """set with a harness-chosen iteration order (injected into subcircuit's namespace)."""

    policy = 'asc'

    def __iter__(self):
        items = list(set.__iter__(self))
        try:
            items.sort(key=repr)
        except Exception:  # noqa: BLE001
            pass
        if PSet.policy == 'desc':
            items.reverse()
        elif PSet.policy.startswith('rot'):
            k = int(PSet.policy[3:]) % max(len(items), 1)
            items = items[k:] + items[:k]
        return iter(items)


class _FakeFuture:
    def __init__(self, fn, args, timeout_now):
        self.fn, self.args, self.t = fn, args, timeout_now

    def result(self):
        if self.t:
            from concurrent.futures import TimeoutError

            raise TimeoutError()
        return self.fn(*self.args)


class FakePool:
    calls = 0
    timeout_at = None  # index of the solver call that times out

    def __init__(self, *a, **k):
        pass

    def __enter__(self):
        return self

    def __exit__(self, *a):
        return False

    def schedule(self, fn, args=(), timeout=None):
        i = FakePool.calls
        FakePool.calls += 1
        return _FakeFuture(fn, args, FakePool.timeout_at == i)


DEFAULT_ENV = {'solver': 'default', 'set': 'asc', 'cuts': 'default', 'timeout_at': None, 'labels': 'default'}

# two-output cones over three leaves, five gates, outputs share the inner gate g0 (node 3)
TOPOLOGIES = {
    'T1': (((0, 1), (1, 2), (0, 4), (3, 5), (3, 2)), (7, 6)),
    'T2': (((0, 1), (3, 2), (3, 4), (5, 0), (4, 1)), (6, 7)),
    'T3': (((0, 1), (0, 2), (3, 4), (5, 1), (3, 2)), (6, 7)),
}
TOPO_TYPES = ('AND', 'OR', 'XOR')


def scheme_labels(scheme, n, k):
    """Label alphabets that look like names the library generates itself (tmp_<i> temporaries, the decimal
    labels of synthesised circuits)."""
    p = n + k
    if scheme == 'default':
        return None
    if scheme == 'tmp-asc':
        return [f'tmp_{i}' for i in range(p)]
    if scheme == 'tmp-desc':
        return [f'tmp_{p - 1 - i}' for i in range(p)]
    if scheme == 'tmp-gates':
        return [f'x{i}' for i in range(n)] + [f'tmp_{j}' for j in range(k)]
    if scheme == 'tmp-gates-desc':
        return [f'x{i}' for i in range(n)] + [f'tmp_{k - 1 - j}' for j in range(k)]
    if scheme == 'digits-asc':
        return [str(i) for i in range(p)]
    if scheme == 'digits-desc':
        return [str(p - 1 - i) for i in range(p)]
    if scheme == 'digits-gates-desc':
        return [f'x{i}' for i in range(n)] + [str(k - 1 - j) for j in range(k)]
    raise KeyError(scheme)


LABEL_SCHEMES = ('tmp-asc', 'tmp-desc', 'tmp-gates', 'tmp-gates-desc', 'digits-asc', 'digits-desc', 'digits-gates-desc')


def env_menu(n_solver_calls, use_pool, only_set=False):
    """Single deviations from the default environment."""
    if only_set:
        return [{'set': 'desc'}, {'set': 'rot1'}, {'set': 'rot2'}, {'storage': 'scrambled'}]
    devs = [{'solver': 'phase'}, {'solver': 'mixed'}, {'set': 'desc'}, {'set': 'rot1'}, {'set': 'rot2'},
            {'cuts': 'reverse_cuts'}, {'cuts': 'reverse_leaves'}, {'cuts': 'keep_dominated'}, {'cuts': 'trivial_first'}]
    devs += [{'labels': sch} for sch in LABEL_SCHEMES]
    devs.append({'storage': 'scrambled'})
    if use_pool:
        for i in range(n_solver_calls):
            devs.append({'timeout_at': i})
    return devs


def run_once(n, gates, outs, basis, params, env):
    """Execute minimize_subcircuits once under `env`. Returns (kind, result/exception, info)."""
    import mockturtle_wrapper as mw
    import pysat.solvers as ps
    import cirbo.minimization.subcircuit as sc
    import cirbo.synthesis.circuit_search as cs
    from vmc import boot

    boot.uuid_counter.reset()
    labs = scheme_labels(env.get('labels', 'default'), n, len(gates))
    c = space.build(n, gates, outs) if labs is None else space.build_from_net(space.spec_net(n, gates, outs, labs=labs))
    if env.get('storage') == 'scrambled':  # users-first gate map, as after parsing a text with forward references
        c = space.scramble_storage(c)
    mw.ENV.reset()
    cuts = env.get('cuts', 'default')
    if cuts.startswith('drop'):
        _, node, idx = cuts.split(':')
        mw.ENV.drop = (node, int(idx))
    elif cuts != 'default':
        setattr(mw.ENV, cuts, True)
    PSet.policy = env.get('set', 'asc')
    sc.set = PSet
    solver = env.get('solver', 'default')

    def chooser(clauses, nvars):
        if solver == 'phase':
            return vsat.solve(clauses, nvars, phase=True)
        if solver == 'mixed':
            # another model at DPLL-friendly cost: prefer True for every odd variable (solve the formula with
            # those variables negated, then translate the model back)
            flip = lambda l: -l if abs(l) % 2 else l  # noqa: E731
            m = vsat.solve([[flip(l) for l in c_] for c_ in clauses], nvars)
            return None if m is None else [flip(l) for l in m]
        return vsat.solve(clauses, nvars)

    ps.ENV.chooser = chooser
    ps.ENV.calls = 0
    real_pool = cs.pebble.ProcessPool
    cs.pebble.ProcessPool = FakePool
    FakePool.calls = 0
    FakePool.timeout_at = env.get('timeout_at')
    try:
        try:
            r = sc.minimize_subcircuits(c, basis, **params)
            return 'ok', r, {'solver_calls': FakePool.calls, 'sat_calls': ps.ENV.calls, 'cuts': mw.ENV.last}
        except Exception as e:  # noqa: BLE001
            return 'exc', e, {'solver_calls': FakePool.calls, 'sat_calls': ps.ENV.calls, 'cuts': mw.ENV.last}
    finally:
        ps.ENV.chooser = None
        cs.pebble.ProcessPool = real_pool
        if 'set' in sc.__dict__:
            del sc.__dict__['set']
        mw.ENV.reset()
        PSet.policy = 'asc'


def judge(acc, case, feats, n, gates, outs, net, ref, has_equiv, kind, res):
    from cirbo.minimization.exception import FailedValidationError

    labs = space.labels(n, len(gates))
    if kind == 'exc':
        if isinstance(res, FailedValidationError):
            acc.violation('minimize_subcircuits/failed-validation', case, repr(res), feats)
        elif not has_equiv:
            acc.violation(f'minimize_subcircuits/raises-{type(res).__name__}', case, repr(res)[:300], feats)
        else:
            acc.count('exception_with_equivalent_gates')
        return
    try:
        rnet = refmodel.abstract(res)
    except Exception as e:  # noqa: BLE001
        acc.violation('minimize_subcircuits/result-unreadable', case, repr(e), feats)
        return
    if rnet.inputs != net.inputs:
        acc.violation('minimize_subcircuits/inputs', case, f'{rnet.inputs} expected {net.inputs}', feats)
        return
    if len(rnet.outputs) != len(net.outputs):
        acc.violation('minimize_subcircuits/output-count', case, f'{rnet.outputs} expected {net.outputs}', feats)
        return
    probs = refmodel.wellformed(res, deep=False)
    if probs:
        acc.violation('minimize_subcircuits/result-ill-formed', case, probs[:3], feats)
        return
    try:
        got = rnet.out_tables()
    except Exception as e:  # noqa: BLE001
        acc.violation('minimize_subcircuits/result-not-evaluable', case, repr(e), feats)
        return
    want = [ref[o] for o in net.outputs]
    if got != want:
        acc.violation(
            'minimize_subcircuits/function-changed', case,
            f'expected {[refmodel.tt_str(v, n) for v in want]} got {[refmodel.tt_str(v, n) for v in got]} result={rnet.to_json()["gates"]}', feats)
        return
    trivial = {'INPUT', 'NOT', 'LNOT', 'RNOT', 'IFF', 'LIFF', 'RIFF', 'ALWAYS_TRUE', 'ALWAYS_FALSE'}
    g0 = sum(1 for t, _ in net.gates.values() if t not in trivial)
    g1 = sum(1 for t, _ in rnet.gates.values() if t not in trivial)
    if g1 > g0 or res.gates_number() > g0:
        acc.violation('minimize_subcircuits/more-gates', case, f'{g1} > {g0}', feats)
    acc.outcome('result', (g0, g1))


def check_circuit(acc, n, gates, outs, basis, params, max_dev, only_env=None, only_set=False):
    net = space.spec_net(n, gates, outs)
    ref = net.tables()
    tabs = list(ref.values())
    has_equiv = len(set(tabs)) != len(tabs)
    use_pool = bool(params.get('solver_time_limit_sec', 15))
    base_case = {**space.spec_json(n, gates, outs), 'basis': str(basis), 'params': params}
    feats = {'has_equiv': has_equiv, 'basis': str(basis)}
    acc.states += 1

    def one(env):
        acc.transitions += 1
        acc.traces += 1
        kind, res, info = run_once(n, gates, outs, basis, params, {**DEFAULT_ENV, **env})
        net_, ref_ = net, ref
        if env.get('labels', 'default') != 'default':
            net_ = space.spec_net(n, gates, outs, labs=scheme_labels(env['labels'], n, len(gates)))
            ref_ = net_.tables()
        judge(acc, {**base_case, 'env': env}, feats, n, gates, outs, net_, ref_, has_equiv, kind, res)
        return info

    if only_env is not None:
        one(only_env)
        return
    info = one({})
    if max_dev >= 1:
        devs = env_menu(info['solver_calls'], use_pool, only_set)
        # admissible single-cut drops
        if info['cuts'] and not only_set:
            for node, cs_ in list(info['cuts'].items()):
                for i in range(len(cs_) - 1):
                    devs.append({'cuts': f'drop:{node}:{i}'})
        for d in devs:
            one(d)
        if max_dev >= 2:
            for d1, d2 in itertools.combinations(devs, 2):
                if set(d1) & set(d2):
                    continue
                one({**d1, **d2})


def _policies(n, k, gates):
    p = n + k
    pol = [(p - 1,), (p - 1, p - 1)]
    s = tuple(space.sinks(n, gates))
    if s and s not in pol:
        pol.append(s)
    allg = tuple(range(n, p))
    if allg not in pol:
        pol.append(allg)
    return pol


PARAM_SETS = {
    'direct': {'solver_time_limit_sec': 0},
    'pool': {'solver_time_limit_sec': 15},
    'valid': {'solver_time_limit_sec': 0, 'enable_validation': True},
    'small': {'solver_time_limit_sec': 0, 'max_subcircuit_size': 2, 'cut_size': 2, 'cut_limit': 2},
    'mss1': {'solver_time_limit_sec': 0, 'max_subcircuit_size': 1},
    'cut3': {'solver_time_limit_sec': 0, 'cut_size': 3, 'cut_limit': 25},
    'limit1': {'solver_time_limit_sec': 0, 'cut_limit': 1},
    'validpool': {'solver_time_limit_sec': 15, 'enable_validation': True, 'cut_size': 3},
}
WIDE_PARAM_SETS = {
    'cut5': {'solver_time_limit_sec': 0, 'cut_size': 5},
    'cut6': {'solver_time_limit_sec': 0, 'cut_size': 6, 'max_subcircuit_size': 6},
    'cut7': {'solver_time_limit_sec': 0, 'cut_size': 7, 'max_subcircuit_size': 6, 'cut_limit': 12},
    'cut6valid': {'solver_time_limit_sec': 0, 'cut_size': 6, 'max_subcircuit_size': 6, 'enable_validation': True},
    'cut4': {'solver_time_limit_sec': 0, 'cut_size': 4, 'max_subcircuit_size': 5},
}


def basis_arg(b):
    from cirbo.synthesis.circuit_search import Basis

    return {'AIG': Basis.AIG, 'XAIG': Basis.XAIG, 'FULL': Basis.FULL}.get(b, b)


def plan(tier):
    t = []
    for i in range(len(SHAPES)):
        t.append({'kind': 'shape', 'i': i, 'dev': 1 if tier == 'quick' else 2})
    for first in WIDE6_TYPES[0]:
        t.append({'kind': 'wide6', 'first': first, 'dev': 1 if tier == 'quick' else 2})
    for topo in TOPOLOGIES:
        for t0 in TOPO_TYPES:
            for t1 in TOPO_TYPES:
                t.append({'kind': 'topo', 'topo': topo, 'first': [t0, t1], 'dev': 0 if tier == 'quick' else 1})
    fams = [(2, 1, 'A04', 0, 1), (2, 2, 'A04', 1, 1), (3, 2, 'A04S', 1, 0), (2, 3, 'A04S', 2, -2)]  # last: last-gate output, so dead logic next to live logic
    if tier == 'thorough':
        fams = [(2, 1, 'A04', 0, 2), (2, 2, 'A04', 1, 1), (3, 2, 'A04', 1, 1), (2, 3, 'A04S', 2, -1), (3, 3, 'A04S', 2, -2)]
    for n, k, a, split, dev in fams:
        for tk in space.tasks(n, k, ALPHAS[a], split):
            tk.update(kind='fam', alpha=a, dev=dev)
            t.append(tk)
    return t


def describe(tier):
    return {
        'rule': 'wide cuts: a six-input shape with cut_size 4..7 and its 48 typings with complemented gate types (cut_size 5/6; thorough 5..7 + validation) (cuts of six leaves); storage deviation: users-first gate map; topo: three five-gate topologies of a two-output cone over three leaves whose outputs share an inner gate x {AND,OR,XOR}^5 (729 circuits, XAIG, direct solver call; thorough also AIG+validation and set-order deviations); label deviations: node labels drawn from the names the library generates itself (tmp_<i>, decimal labels of synthesised circuits), ascending/descending; circuit of F(n,k,A04) (11 supported gate types; A04S = {NOT,AND,OR,XOR,GT,NOR}) x outputs {last gate, last gate twice, all sinks, all gates} x '
        'basis {AIG, XAIG, FULL, "xaig"} x parameter sets (direct solver call, pool path, validation on, small cut/size limits, cut_limit 1) '
        'x E3: default environment, then every single deviation (solver model: other phase / mixed phase; solver time-out '
        'on each solver call (fake pool); cut family: reversed per-node order, reversed leaf order, dominated cuts kept, trivial cut '
        'first, each admissible single-cut drop; iteration order of set(cut): descending / rotations), thorough: every pair of '
        'deviations on the designed shapes. Oracle: reference truth table, interface, non-trivial gate count; exceptions other than '
        'FailedValidationError tolerated only when two gates of the argument are functionally equivalent. distinct = distinct '
        '(gates before, gates after).',
        'bounds': {'quick': '18 designed shapes (4 bases x 8 parameter sets, 1 deviation for XAIG with direct/pool/validation; the two largest shapes with max_subcircuit_size<=3); F(2,1,A04), F(2,2,A04) 1 deviation; F(3,2,A04S) default environment; F(2,3,A04S) last-gate output (dead gates next to live ones), default environment',
                   'thorough': 'designed shapes 2 deviations; F(2,1) 2 deviations; F(2,2,A04), F(3,2,A04) 1 deviation; F(2,3,A04S) default environment + set-order deviations, F(3,3,A04S) default environment (last-gate output, XAIG)'}[tier],
        'exhaustive': True,
        'assumptions': ['vsat is sound and complete; the cut shim enumerates admissible families (vmc/shims); vmc.refmodel evaluator'],
    }


def probe():
    n, gates, outs = SHAPES[6]
    kind, res, info = run_once(n, gates, outs, basis_arg('XAIG'), PARAM_SETS['direct'], dict(DEFAULT_ENV))
    return [kind, refmodel.abstract(res).to_json() if kind == 'ok' else repr(res)]


HEAVY_SHAPES = {6, 9}  # cones whose minimality proof is expensive for a DPLL solver


def run_task(task, acc):
    if task['kind'] == 'shape':
        n, gates, outs = SHAPES[task['i']]
        heavy = task['i'] in HEAVY_SHAPES
        if task['i'] in WIDE_SHAPES:
            for b in ('XAIG', 'AIG', 'FULL'):
                for pname, params in WIDE_PARAM_SETS.items():
                    check_circuit(acc, n, gates, outs, basis_arg(b), dict(params), 1 if (b == 'XAIG' and pname == 'cut6') else 0, only_set=True)
            acc.sample({**space.spec_json(n, gates, outs), 'basis': 'XAIG', 'params': WIDE_PARAM_SETS['cut6'], 'env': {}})
            return
        for b in ('AIG', 'XAIG', 'FULL', 'xaig'):
            for pname, params in PARAM_SETS.items():
                if heavy:
                    # bound the cone size so that every synthesis call stays small; the full-size run is
                    # done once (default environment, XAIG) in the thorough tier
                    if pname == 'direct' and b == 'XAIG' and task['dev'] >= 2:
                        check_circuit(acc, n, gates, outs, basis_arg(b), dict(params), 0)
                    params = {**params, 'max_subcircuit_size': min(params.get('max_subcircuit_size', 9), 3)}
                dev = task['dev'] if (b == 'XAIG' and pname in ('direct', 'pool', 'valid')) else (1 if (task['dev'] >= 2 and pname in ('direct', 'validpool')) else 0)
                check_circuit(acc, n, gates, outs, basis_arg(b), dict(params), dev)
        acc.sample({**space.spec_json(n, gates, outs), 'basis': 'XAIG', 'params': PARAM_SETS['direct'], 'env': {}})
        return
    if task['kind'] == 'wide6':
        for types in itertools.product(*WIDE6_TYPES):
            if types[0] != task['first']:
                continue
            gates = ((types[0], (0, 1)), (types[1], (2, 3)), (types[2], (4, 5)), (types[3], (6, 7)), (types[4], (7, 8)), ('OR', (9, 10)), ('XOR', (11, 6)))
            for pname in ('cut6', 'cut5') if task['dev'] < 2 else ('cut6', 'cut5', 'cut7', 'cut6valid'):
                check_circuit(acc, 6, gates, (12, 10), basis_arg('XAIG'), dict(WIDE_PARAM_SETS[pname]), 0)
        acc.sample({**space.spec_json(6, gates, (12, 10)), 'basis': 'XAIG', 'params': WIDE_PARAM_SETS['cut6'], 'env': {}})
        return
    if task['kind'] == 'topo':
        ops, outs = TOPOLOGIES[task['topo']]
        for rest in itertools.product(TOPO_TYPES, repeat=3):
            types = tuple(task['first']) + rest
            gates = tuple((t, o) for t, o in zip(types, ops))
            check_circuit(acc, 3, gates, outs, basis_arg('XAIG'), dict(PARAM_SETS['direct']), 0)
            if task['dev'] >= 1:
                check_circuit(acc, 3, gates, outs, basis_arg('AIG'), dict(PARAM_SETS['valid']), 0)
                check_circuit(acc, 3, gates, outs, basis_arg('XAIG'), dict(PARAM_SETS['direct']), 1, only_set=True)
        acc.sample({**space.spec_json(3, gates, outs), 'basis': 'XAIG', 'params': PARAM_SETS['direct'], 'env': {}})
        return
    alpha = ALPHAS[task['alpha']]
    n, k = task['n'], task['k']
    outs = (n + k - 1,)
    for gates in space.enum_gates(n, k, alpha, space.prefix_from_task(task)):
        if task['dev'] == -2:
            # largest family: last-gate output, XAIG, direct solver call, default environment
            check_circuit(acc, n, gates, (n + k - 1,), basis_arg('XAIG'), dict(PARAM_SETS['direct']), 0)
            continue
        for outs in _policies(n, k, gates):
            for b, pname in (('XAIG', 'direct'), ('AIG', 'valid'), ('FULL', 'pool')):
                if task['dev'] == -1:
                    # default environment + the set-iteration-order deviations only
                    check_circuit(acc, n, gates, outs, basis_arg(b), dict(PARAM_SETS[pname]), 1 if b == 'XAIG' else 0, only_set=True)
                else:
                    check_circuit(acc, n, gates, outs, basis_arg(b), dict(PARAM_SETS[pname]), task['dev'] if b == 'XAIG' else 0)
    acc.sample({**space.spec_json(n, gates, outs), 'basis': 'XAIG', 'params': PARAM_SETS['direct'], 'env': {}})


def replay(case, acc):
    if 'task' in case:
        return run_task(case['task'], acc)
    n, gates, outs = space.spec_from_json(case)
    b = case['basis']
    if isinstance(b, str) and b.startswith('Basis.'):
        b = b.split('.')[1]
    check_circuit(acc, n, gates, outs, basis_arg(b), dict(case['params']), 0, only_env=case.get('env', {}))
