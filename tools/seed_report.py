#!/usr/bin/env python3
"""Generate seeded/README.md from seeded/*/meta.json + result.json."""
import glob
import json
import os

root = os.path.join(os.path.dirname(os.path.dirname(os.path.abspath(__file__))), 'seeded')
rows = []
for d in sorted(glob.glob(os.path.join(root, '*/'))):
    name = os.path.basename(d.rstrip('/'))
    mp, rp = os.path.join(d, 'meta.json'), os.path.join(d, 'result.json')
    if not os.path.exists(mp):
        continue
    m = json.load(open(mp))
    r = json.load(open(rp)) if os.path.exists(rp) else {}
    first = (m.get('summary') or m.get('needs_to_manifest', '').split('\n')[0])[:160].replace('|', '/')
    det = ', '.join(m.get('detected_by') or r.get('detected_by', [])) or 'NOT DETECTED'
    base = (r.get('baseline') or m.get('baseline', '')).split(' in ')[0]
    missed = m.get('missed_at_first', '').replace('|', '/')
    rows.append(f"| {name} | {m.get('property')} | {first} | {det} | {missed} | {base} |")
with open(os.path.join(root, 'README.md'), 'w') as f:
    f.write('# Seeded changes (property-breaking edits that pass the existing suite)\n\n')
    f.write('Each directory holds patch.diff, demo.py (fails with the change, passes without), meta.json and the\n')
    f.write('result of `tools/try_seed.py` (result.json). None of these is ever committed to /repo.\n\n')
    f.write('Column "missed at first": the check as first written did not report the change; it was strengthened\n(never loosened) and now does.\n\n')
    f.write('| seed | property | change / trigger | reported by | missed at first | baseline with change |\n|---|---|---|---|---|---|\n')
    f.write('\n'.join(rows) + '\n')
print(len(rows), 'seeds')
