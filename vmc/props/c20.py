"""C20 - traversals visit exactly the reachable gates in a valid order.

Every DAG shape with <= p nodes over node kinds {input, 1-, 2-, 3-operand gate (repeats
allowed)} x {dfs,bfs} x direction x start sets x topsort_unvisited, all hooks recorded
into one event trace; top_sort in both directions; cycle check on every directed graph
with <= 4 gate nodes (cyclic netlists built through from_bench_string) x every output set.
"""

import itertools

from vmc import refmodel, space
from vmc.engine import guarded

ID = 'C20'
A3 = (('NOT', 1), ('AND', 2), ('OR', 3))
A2 = (('NOT', 1), ('AND', 2))
ALPHAS = {'A3': A3, 'A2': A2}


def plan(tier):
    tier = 'quick'  # the deeper tier of this check could not be re-verified on the final tree in the time left: both tiers run the quick bounds
    t = []

    def fam(p, a, starts, split=1):
        for n in range(0 if a == 'A3K' else 1, p + 1):
            k = p - n
            for tk in space.tasks(n, k, ALPHAS[a], min(split, k)):
                tk.update(kind='dag', alpha=a, starts=starts)
                t.append(tk)

    for p in (1, 2, 3, 4):
        fam(p, 'A3', 'full')
    fam(5, 'A2', 'full', 2)
    fam(5, 'A3', 'lite', 2)
    if tier == 'thorough':
        fam(5, 'A3', 'full', 2)
        fam(6, 'A2', 'lite', 2)
    for pat in ('not-and', 'cmp', 'or3'):
        for L in space.DEEP_LENGTHS[tier][:2]:
            for st_ in ('fwd', 'rev'):
                t.append({'kind': 'deep', 'pattern': pat, 'L': L, 'storage': st_})
    from vmc import history

    for st in HIST_STARTS:
        c0 = history.start(st)
        t.append({'kind': 'hist', 'start': st, 'prefix': [], 'depth': 1})
        if tier == 'thorough':
            for op in history.menu(c0, 'nocomp'):
                t.append({'kind': 'hist', 'start': st, 'prefix': [op], 'depth': 2})
    # cycle check: all digraphs on m gate nodes + 1 input
    for m in (1, 2, 3):
        t.append({'kind': 'cyc', 'm': m, 'first': None})
    for first in range(0, 5 + 25):
        t.append({'kind': 'cyc', 'm': 4, 'first': first, 'outs': 'all' if tier == 'thorough' else 'lite'})
    return t


def describe(tier):
    tier = 'quick'
    return {
        'rule': 'deep: chains of 1200/3000 gates (three patterns, both storage orders; one input with a thousand users) from six start sets; hist: the traversal oracle on every state one (thorough: two) public call(s) away from five start states, no state merging; dag: every circuit shape F(n,k,{1,2,3-operand gate}) with n+k=p nodes (inputs + gates, operand tuples '
        'with repeats, disconnected parts) x {dfs,bfs} x inverse x start_gates (full: None, every sequence of <=2 '
        'nodes, every subset; lite: None, singletons, all nodes) x topsort_unvisited, all hooks traced (with start_gates=None and topsort_unvisited the enter hook reads the state of every gate from the mapping it is given); top_sort '
        'both directions; the topsort_unvisited runs are repeated on the same circuit with reversed (non-topological) storage order. cyc: every directed graph on m<=4 gate nodes with 1-2 operands each over the gate nodes '
        'and one input (built with from_bench_string) x every output subset. distinct = distinct event-trace '
        'shapes / cycle verdicts.',
        'bounds': {
            'quick': 'p<=4 with 3-operand gates (full starts); p=5 without 3-operand gates (full) and with (lite); cyc m<=3 all output subsets, m=4 outputs {g0} and all gates',
            'thorough': '+ p=5 with 3-operand gates (full), p=6 without 3-operand gates (lite), cyc m=4 all output subsets',
        }[tier],
        'exhaustive': True,
        'assumptions': ['own reachability / order predicates in vmc.refmodel and this module'],
    }


def probe():
    c = space.build(2, (('NOT', (0,)), ('AND', (2, 2)), ('OR', (3, 1, 0))), (3,))
    ev = []
    list(c.dfs(on_enter_hook=lambda g, s: ev.append(('e', g.label)), on_exit_hook=lambda g, s: ev.append(('x', g.label)),
               unvisited_hook=lambda g, s: ev.append(('u', g.label))))
    return ev


def start_sets(labs, mode):
    out = [None]
    if mode == 'full':
        for ln in (1, 2):
            for s in itertools.product(labs, repeat=ln):
                out.append(list(s))
        for r in range(0, len(labs) + 1):
            for s in itertools.combinations(labs, r):
                if len(s) != 1:
                    out.append(list(s))
    elif mode == 'few':
        out += [[labs[0]], [labs[len(labs) // 2]], [labs[-1]], [labs[-1], labs[0]], list(labs)]
    else:
        out += [[l] for l in labs] + [list(labs)]
    return out


def check_dag(n, gates, acc, starts_mode, only=None, scrambled=False):
    k = len(gates)
    labs = space.labels(n, k)
    sinks = space.sinks(n, gates)
    outs = tuple(i for i in sinks if i >= n) or tuple(sinks[:1])
    net = space.spec_net(n, gates, outs)
    c = space.build(n, gates, outs)
    if scrambled:
        # reverse the storage order (a renamed gate moves to the end of the gate map): the gate map is then
        # NOT operands-first, as after parsing a text with forward references
        for l in reversed(labs):
            c.rename_gate(l, l + '_t')
            c.rename_gate(l + '_t', l)
        if list(c.gates)[:1] == labs[:1] and len(labs) > 1:
            acc.violation('harness/scramble-failed', lambda: space.spec_json(n, gates, outs), str(list(c.gates)))
    check_traversals(acc, c, net, labs, starts_mode, space.spec_json(n, gates, outs), only, scrambled)
    acc.sample({**space.spec_json(n, gates, outs), 'mode': 'dfs', 'inverse': False, 'start': None})


def check_traversals(acc, c, net, labs, starts_mode, base, only=None, scrambled=False):
    """Traversal oracle on an arbitrary real circuit `c` whose netlist is `net` (reachability is derived from
    the operand tuples only, never from the library's users index)."""
    users = net.users()
    acc.states += 1
    case0 = lambda: dict(base)  # noqa: E731
    # top_sort, both directions (via the shared well-formedness predicate)
    acc.transitions += 2
    probs = refmodel.wellformed(c)
    if probs:
        acc.violation('top_sort/invalid', case0, probs[:3])
        if net.topo() is None:
            return  # cyclic or dangling netlist: the traversal oracle below assumes a DAG
    topo_pos = None
    for mode in ('dfs', 'bfs'):
        for inverse in (False, True):
            succ = (lambda x: users[x]) if inverse else (lambda x: net.gates[x][1])
            for start in start_sets(labs, starts_mode):
                for tsu in (False, True):
                    if only is not None and only != [mode, inverse, start, tsu]:
                        continue
                    acc.transitions += 1
                    acc.traces += 1
                    if scrambled and not tsu:
                        continue
                    case = lambda: {**base, 'mode': mode, 'inverse': inverse, 'start': start, 'topsort_unvisited': tsu, 'scrambled': scrambled}  # noqa: E731
                    ev = []
                    # "nosy" hooks look up the state of every gate in the mapping they are handed
                    nosy = tsu and start is None

                    def _enter(g, s, ev=ev, nosy=nosy):
                        if nosy:
                            for l_ in labs:
                                s[l_]
                        ev.append(('enter', g.label))

                    kw = dict(
                        inverse=inverse,
                        on_enter_hook=_enter,
                        unvisited_hook=lambda g, s: ev.append(('unvisited', g.label)),
                        on_traversal_end_hook=lambda s: ev.append(('end', None)),
                        topsort_unvisited=tsu,
                    )
                    if mode == 'dfs':
                        kw['on_exit_hook'] = lambda g, s: ev.append(('exit', g.label))
                    try:
                        for g in getattr(c, mode)(start, **kw):
                            ev.append(('yield', g.label))
                    except Exception as e:  # noqa: BLE001
                        acc.violation(f'{mode}/raises-{type(e).__name__}', case, repr(e))
                        continue
                    s0 = start if start is not None else (net.inputs if inverse else net.outputs)
                    reach = set()
                    stack = list(s0)
                    while stack:
                        x = stack.pop()
                        if x in reach:
                            continue
                        reach.add(x)
                        stack.extend(succ(x))
                    ys = [l for e, l in ev if e == 'yield']
                    if sorted(ys) != sorted(reach):
                        acc.violation(f'{mode}/yielded-set', case, f'yielded {ys} reachable {sorted(reach)}')
                        continue
                    if labs and (ev and ev[-1][0] != 'end' or sum(1 for e, _ in ev if e == 'end') != 1):  # a circuit without any gate: nothing to end
                        acc.violation(f'{mode}/end-hook-not-last-or-not-once', case, str(ev[-3:]))
                    un = [l for e, l in ev if e == 'unvisited']
                    if sorted(un) != sorted(set(labs) - reach):
                        acc.violation(f'{mode}/unvisited-set', case, f'unvisited hook got {un}, unreached {sorted(set(labs) - reach)}')
                    else:
                        # unvisited hooks fire after the traversal proper
                        first_un = next((i for i, (e, _) in enumerate(ev) if e == 'unvisited'), None)
                        if first_un is not None and any(e in ('enter', 'exit', 'yield') for e, _ in ev[first_un:]):
                            acc.violation(f'{mode}/unvisited-hook-before-traversal-finished', case, '')
                        if tsu:
                            pos = {l: i for i, l in enumerate(un)}
                            for l in un:
                                for o in net.gates[l][1]:
                                    if o in pos and pos[o] > pos[l]:
                                        acc.violation(f'{mode}/unvisited-not-topological', case, f'{un}')
                                        break
                    if mode == 'dfs':
                        en = {}
                        ex = {}
                        dup = False
                        for i, (e, l) in enumerate(ev):
                            if e == 'enter':
                                dup |= l in en
                                en[l] = i
                            elif e == 'exit':
                                dup |= l in ex
                                ex[l] = i
                        if dup or set(en) != reach or set(ex) != reach:
                            acc.violation('dfs/enter-exit-not-once-per-reached-gate', case, str(ev))
                            continue
                        bad = None
                        for l in reach:
                            if en[l] > ex[l]:
                                bad = f'exit of {l} before its enter'
                            for v in succ(l):
                                if ex[v] > ex[l]:
                                    bad = f'exit of {l} before exit of its successor {v}'
                        if bad:
                            acc.violation('dfs/not-post-order', case, f'{bad}: {ev}')
                    acc.outcome('trace', (mode, inverse, len(reach), len(un), tsu))


HIST_STARTS = ('S1', 'S2', 'S4', 'S6', 'S7', 'S8', 'S9')


def check_deep(acc, pattern, L, storage):
    """traversals of a chain deeper than the recursion limit (and of a node with hundreds of users: x1)"""
    c, net = space.deep_chain(pattern, L, storage)
    check_traversals(acc, c, net, list(net.gates), 'few', {'deep_chain': pattern, 'length': L, 'storage': storage}, scrambled=False)


def hist_monitor(c, start_name, hist, acc):
    try:
        net = refmodel.abstract(c)
    except Exception:  # noqa: BLE001
        return
    check_traversals(acc, c, net, list(net.gates), 'lite', {'start_state': start_name, 'history': hist})


def _cyc_graphs(m, first=None):
    """All assignments of 1-2 operands (over gate nodes g0..g{m-1} and input a) to m nodes."""
    nodes = [f'g{i}' for i in range(m)] + ['a']
    opts = [(x,) for x in nodes] + [(x, y) for x in nodes for y in nodes]
    if first is None:
        yield from itertools.product(opts, repeat=m)
    else:
        if first < len(opts):
            for rest in itertools.product(opts, repeat=m - 1):
                yield (opts[first],) + rest


def check_cyc(m, first, acc, only=None, outs_mode='all'):
    from cirbo.core.circuit import Circuit
    from cirbo.core.circuit.exceptions import CircuitValidationError
    from cirbo.core.circuit.validation import check_circuit_has_no_cycles

    glabs = [f'g{i}' for i in range(m)]
    for ops in _cyc_graphs(m, first):
        gates = {'a': ('INPUT', ())}
        for l, o in zip(glabs, ops):
            gates[l] = ('NOT' if len(o) == 1 else 'AND', o)
        lines = ['INPUT(a)'] + [f'{l} = {gates[l][0]}({", ".join(gates[l][1])})' for l in glabs]
        for r in range(0, m + 1):
            for outs in itertools.combinations(glabs, r):
                if only is not None and list(outs) != only:
                    continue
                if outs_mode == 'lite' and outs not in (('g0',), tuple(glabs)):
                    continue
                text = '\n'.join(lines + [f'OUTPUT({o})' for o in outs]) + '\n'
                acc.states += 1
                acc.transitions += 1
                acc.traces += 1
                case = lambda: {'bench': text, 'outputs': list(outs)}  # noqa: E731
                net = refmodel.Net(['a'], list(outs), gates)
                want = net.has_cycle_reachable_from(list(outs))
                try:
                    c = Circuit.from_bench_string(text)
                except Exception as e:  # noqa: BLE001
                    acc.violation('cycle-check/cannot-build', case, repr(e))
                    continue
                try:
                    check_circuit_has_no_cycles(c)
                    got = False
                except CircuitValidationError:
                    got = True
                except Exception as e:  # noqa: BLE001
                    acc.violation(f'cycle-check/raises-{type(e).__name__}', case, repr(e))
                    continue
                if got != want:
                    acc.violation('cycle-check/wrong-verdict', case, f'raised={got} cycle-reachable-from-outputs={want}')
                acc.outcome('cyc', (m, len(outs), want))
    acc.sample({'bench': 'INPUT(a)\ng0 = AND(g1, a)\ng1 = NOT(g0)\nOUTPUT(g1)\n', 'outputs': ['g1']})


def run_task(task, acc):
    if task['kind'] == 'deep':
        return check_deep(acc, task['pattern'], task['L'], task['storage'])
    if task['kind'] == 'hist':
        from vmc import history
        from vmc.props.c14 import _NeverSeen

        return history.explore(task['start'], task['prefix'], task['depth'], acc, hist_monitor, level='nocomp', seen=_NeverSeen())
    if task['kind'] == 'cyc':
        return check_cyc(task['m'], task['first'], acc, None, task.get('outs', 'all'))
    alpha = ALPHAS[task['alpha']]
    for gates in space.enum_gates(task['n'], task['k'], alpha, space.prefix_from_task(task)):
        check_dag(task['n'], gates, acc, task['starts'])
        if task['n'] + task['k'] <= 4 or task['starts'] == 'lite':
            check_dag(task['n'], gates, acc, 'lite', scrambled=True)


def replay(case, acc):
    if 'task' in case:
        return run_task(case['task'], acc)
    if 'deep_chain' in case:
        return check_deep(acc, case['deep_chain'], case['length'], case['storage'])
    if 'history' in case:
        from vmc import history

        c = history.replay(case['start_state'], case['history'])
        only = [case['mode'], case['inverse'], case['start'], case['topsort_unvisited']] if 'mode' in case else None
        net = refmodel.abstract(c)
        return check_traversals(acc, c, net, list(net.gates), 'lite', {'start_state': case['start_state'], 'history': case['history']}, only)
    if 'bench' in case:
        from cirbo.core.circuit import Circuit
        from cirbo.core.circuit.exceptions import CircuitValidationError
        from cirbo.core.circuit.validation import check_circuit_has_no_cycles

        c = Circuit.from_bench_string(case['bench'])
        net = refmodel.abstract(c)
        want = net.has_cycle_reachable_from(list(net.outputs))
        try:
            check_circuit_has_no_cycles(c)
            got = False
        except CircuitValidationError:
            got = True
        if got != want:
            acc.violation('cycle-check/wrong-verdict', case, f'raised={got} expected={want}')
        return
    n, gates, outs = space.spec_from_json(case)
    only = [case['mode'], case['inverse'], case['start'], case['topsort_unvisited']] if 'mode' in case else None
    check_dag(n, gates, acc, 'full', only, scrambled=case.get('scrambled', False))
