"""pysat.formula subset: CNF, IDPool."""


class IDPool:
    def __init__(self, start_from=1, occupied=()):
        self.top = start_from - 1
        self.obj2id = {}
        self.id2obj = {}

    def id(self, obj=None):
        if obj is None:
            self.top += 1
            return self.top
        v = self.obj2id.get(obj)
        if v is None:
            self.top += 1
            v = self.top
            self.obj2id[obj] = v
            self.id2obj[v] = obj
        return v

    def obj(self, vid):
        return self.id2obj.get(vid)


class CNF:
    def __init__(self, from_clauses=None):
        self.clauses = []
        self.nv = 0
        if from_clauses is not None:
            for c in from_clauses:
                self.append(c)

    def append(self, clause):
        clause = list(clause)
        self.clauses.append(clause)
        for l in clause:
            if abs(l) > self.nv:
                self.nv = abs(l)

    def extend(self, clauses):
        for c in clauses:
            self.append(c)

    def __iter__(self):
        return iter(self.clauses)

    def __len__(self):
        return len(self.clauses)
