"""C15 - evaluation under partial assignments is sound and monotone.

Operator level: every operator x {F,T,U}^k.  Circuit level: E1 over F(n,k,FULL) x all 3^n
partial assignments (inputs absent from the dict / explicitly Undefined) x the three
evaluation entry points.  Oracle: the set of reference values over all completions.
"""

import itertools

from vmc import refmodel, space
from vmc.engine import guarded

ID = 'C15'
ALPHAS = {'REQ': space.alphabet('AND', 'XOR', 'GT', 'NOT'), 'FULL': space.FULL, 'FULL_NO3': space.FULL_NO3, 'S4': space.S4 + space.U}


def plan(tier):
    t = [{'kind': 'ops'}, {'kind': 'wideops'}]
    for n in (1, 2, 3, 4):
        for window in (None, 4, 3, 2):
            t.append({'kind': 'prefix', 'n': n, 'window': window, 'Ks': list(range(2, 15 if window is None else 25))})
    for pat in space.DEEP_PATTERNS:
        for L in space.DEEP_LENGTHS[tier]:
            for st_ in ('fwd', 'rev'):
                t.append({'kind': 'deep', 'pattern': pat, 'L': L, 'storage': st_})
    fams = [(1, 1, 'FULL', 0), (1, 2, 'FULL', 1), (2, 1, 'FULL', 1), (2, 2, 'FULL', 1), (3, 1, 'FULL', 1),
            (2, 1, 'S4', 1)]
    if tier == 'thorough':
        fams += [(3, 2, 'FULL', 1), (2, 3, 'FULL_NO3', 2), (3, 1, 'S4', 1), (1, 3, 'FULL', 2)]
    for n, k, a, split in fams:
        for tk in space.tasks(n, k, ALPHAS[a], split):
            tk.update(kind='circ', alpha=a)
            t.append(tk)
    for n, k, a, split in [(2, 3, 'REQ', 2)] + ([(3, 3, 'REQ', 2), (2, 4, 'REQ', 2)] if tier == 'thorough' else []):
        for tk in space.tasks(n, k, ALPHAS[a], split):
            tk.update(kind='req', alpha=a)
            t.append(tk)
    return t


def describe(tier):
    return {
        'rule': 'removal: every small circuit after a temporary user of each gate was added and removed again (a gate that lost its last user), all partial assignments x entry points; prefix: densely shared circuits (gate k reads all / the last 2-4 earlier nodes; 2..14 / 2..24 gates, 1-4 inputs, three type cycles) x all 3^n partial assignments x five entry points; wide: every n-ary type with 255/256/257/300 operands over a stated operand alphabet (uniform, alternating, one deviating or Undefined operand at the first/middle/last/256th position); deep: chains of 1200/3000 (thorough 7000) gates, six patterns, both storage orders x all 27 partial assignments x five entry points; operators: every gate type x every operand vector over {False,True,Undefined} (arity<=4 for n-ary); '
        'circuits: every circuit of F(n,k,A) x all 3^n partial assignments x {absent, explicit Undefined} x '
        '{evaluate_full_circuit, evaluate_circuit (default outputs = all sinks, and outputs=[g] for every g), '
        'evaluate_circuit_outputs}; soundness against all completions, monotonicity along every covering pair '
        'p < q, definedness under total assignments; the same after an evaluation followed by a label exchange of two gates (renames only); evaluate_circuit(outputs=L) for every ordered list L of up to three distinct gates (and every permutation of all gates with an input inserted at every position), evaluate(list) and evaluate_at(list, i) with Undefined entries on a circuit whose outputs interleave gates and inputs away from their input positions (every family, plus F(2,3,{AND,XOR,GT,NOT}); thorough F(3,3,.) and F(2,4,.)). distinct = distinct (definedness pattern) outcomes.',
        'bounds': {
            'quick': 'F(1..2,<=2,FULL), F(3,1,FULL), F(2,1,4-ary)',
            'thorough': '+ F(3,2,FULL), F(2,3,FULL\\S3), F(1,3,FULL), F(3,1,4-ary)',
        }[tier],
        'exhaustive': True,
        'assumptions': ['vmc.refmodel gate table'],
    }


def probe():
    from cirbo.core.circuit.operators import Undefined

    c = space.build(2, (('GT', (0, 1)), ('OR', (2, 0))), (3,))
    r = c.evaluate_circuit({'x0': True})
    return sorted((k, 'U' if v == Undefined and v is not True and v is not False else v) for k, v in r.items())


def _isb(v):
    return v is True or v is False


def check_ops(acc):
    from cirbo.core.circuit import gate as G
    from cirbo.core.circuit.operators import Undefined

    vals3 = (False, True, Undefined)
    for t in refmodel.ALL_TYPES:
        gt = getattr(G, t)
        if t in refmodel.UNARY:
            arities = (1,)
        elif t in refmodel.CONST:
            arities = (0, 2)
        elif t in refmodel.SYM:
            arities = (2, 3, 4)
        else:
            arities = (2,)
        for ar in arities:
            res = {}
            for idx in itertools.product(range(3), repeat=ar):
                ops = [vals3[i] for i in idx]
                acc.states += 1
                acc.transitions += 1
                acc.traces += 1
                case = {'type': t, 'operands': ['FTU'[i] for i in idx]}
                try:
                    got = gt.operator(*ops)
                except Exception as e:  # noqa: BLE001
                    acc.violation('operator/raises', case, repr(e))
                    continue
                poss = refmodel.gate_possible(t, [frozenset((False, True)) if i == 2 else frozenset((bool(i),)) for i in idx])
                if _isb(got):
                    if poss != frozenset((got,)):
                        acc.violation('operator/unsound', case, f'reports {got} but completions give {sorted(poss)}')
                elif not (got == Undefined):
                    acc.violation('operator/not-a-gate-state', case, repr(got))
                elif 2 not in idx:
                    acc.violation('operator/undefined-on-total', case, '')
                res[idx] = got
                acc.outcome('op', (t, idx, 'U' if not _isb(got) else got))
            # monotone: defining one more operand never loses / changes a Boolean
            for idx, got in res.items():
                if not _isb(got):
                    continue
                for pos in range(ar):
                    if idx[pos] == 2:
                        for b in (0, 1):
                            q = idx[:pos] + (b,) + idx[pos + 1:]
                            if q in res and res[q] is not got:
                                acc.violation('operator/non-monotone', {'type': t, 'p': ['FTU'[i] for i in idx], 'q': ['FTU'[i] for i in q]}, f'{got} -> {res[q]!r}')
    acc.sample({'type': 'AND', 'operands': ['F', 'U']})


def check_circuit(n, gates, acc):
    from cirbo.core.circuit.operators import Undefined

    k = len(gates)
    labs = space.labels(n, k)
    net = space.spec_net(n, gates)
    ref = net.tables()
    rows = 1 << n
    mask = (1 << rows) - 1
    iv = refmodel.input_vectors_cached(n)
    sink = [labs[i] for i in space.sinks(n, gates)]
    c = space.build(n, gates, space.sinks(n, gates))
    cones = {l: net.reach_back([l]) for l in labs}
    cone_sinks = net.reach_back(sink)
    acc.states += 1
    results = {}  # (entry, p) -> {gate: value}
    for p in itertools.product(range(3), repeat=n):
        comp = mask
        for i, v in enumerate(p):
            if v == 1:
                comp &= iv[i]
            elif v == 0:
                comp &= iv[i] ^ mask
        poss = {}
        for l in labs:
            r = ref[l] & comp
            s = set()
            if r:
                s.add(True)
            if r != comp:
                s.add(False)
            poss[l] = s
        for form in ('absent', 'explicit'):
            a = {}
            for i, v in enumerate(p):
                if v != 2:
                    a[labs[i]] = bool(v)
                elif form == 'explicit':
                    a[labs[i]] = Undefined
            case = lambda: {**space.spec_json(n, gates), 'partial': ['FTU'[v] for v in p], 'form': form}  # noqa: E731
            runs = [('evaluate_full_circuit', c.evaluate_full_circuit, (a,), {}, set(labs)),
                    ('evaluate_circuit', c.evaluate_circuit, (a,), {}, cone_sinks),
                    ('evaluate_circuit_outputs', c.evaluate_circuit_outputs, (a,), {}, set(sink))]
            if form == 'absent':
                for l in labs[n:]:
                    runs.append((f'evaluate_circuit[{l}]', c.evaluate_circuit, (a,), {'outputs': [l]}, cones[l]))
            for entry, fn, args, kw, evaluated in runs:
                acc.transitions += 1
                acc.traces += 1
                ok, res = guarded(acc, entry.split('[')[0], case, fn, *args, **kw)
                if not ok:
                    continue
                site = entry.split('[')[0]
                for l, v in res.items():
                    if _isb(v):
                        if l in poss and poss[l] != {v}:
                            acc.violation(f'{site}/unsound', case, f'{entry}: gate {l} reported {v}, completions give {sorted(poss[l])}')
                            break
                    elif not (v == Undefined):
                        acc.violation(f'{site}/not-a-gate-state', case, f'{l}: {v!r}')
                        break
                    elif 2 not in p and l in evaluated:
                        acc.violation(f'{site}/undefined-under-total-assignment', case, f'{entry}: gate {l}')
                        break
                if form == 'absent':
                    results[(entry, p)] = res
                else:
                    prev = results.get((entry, p))
                    if prev is not None and {k_: (v if _isb(v) else 'U') for k_, v in prev.items()} != {
                        k_: (v if _isb(v) else 'U') for k_, v in res.items()
                    }:
                        acc.violation(f'{site}/absent-vs-explicit-undefined-differ', case, f'{entry}')
        acc.outcome('defined', tuple(len(s) == 1 for s in poss.values()))
    # one assignment dict reused by the caller: inputs defined one after another, then one flipped
    for entry, fn in (('evaluate_circuit', c.evaluate_circuit), ('evaluate_circuit_outputs', c.evaluate_circuit_outputs)):
        shared = {}
        p = [2] * n
        steps = [(i, 1) for i in range(n)] + ([(0, 0)] if n else [])
        for i, v in steps:
            shared[labs[i]] = bool(v)
            p[i] = v
            acc.transitions += 1
            case = lambda: {**space.spec_json(n, gates), 'reused_dict_steps': steps, 'at': [i, v]}  # noqa: E731
            ok, res = guarded(acc, entry, case, fn, shared)
            if not ok:
                break
            fresh = results.get((entry, tuple(p)))
            if fresh is not None and {k_: (x if _isb(x) else 'U') for k_, x in res.items()} != {k_: (x if _isb(x) else 'U') for k_, x in fresh.items()}:
                acc.violation(f'{entry}/differs-when-the-assignment-dict-is-reused', case, f'got {res!r} fresh {fresh!r}')
                break
            if set(shared) - set(labs[:n]):
                acc.violation(f'{entry}/modifies-its-argument', case, f'keys now {sorted(shared)}')
                break
    # monotonicity along covering pairs
    for (entry, p), res in results.items():
        for pos in range(n):
            if p[pos] != 2:
                continue
            for b in (0, 1):
                q = p[:pos] + (b,) + p[pos + 1:]
                rq = results.get((entry, q))
                if rq is None:
                    continue
                for l, v in res.items():
                    if _isb(v) and rq.get(l) is not v:
                        acc.violation(
                            f'{entry.split("[")[0]}/non-monotone',
                            lambda: {**space.spec_json(n, gates), 'p': ['FTU'[v_] for v_ in p], 'q': ['FTU'[v_] for v_ in q]},
                            f'{entry}: gate {l}: {v} under p but {rq.get(l)!r} under q',
                        )
                        break
    acc.sample({**space.spec_json(n, gates), 'partial': ['U'] * n})


def check_after_relabel(n, gates, acc):
    """Evaluate, then exchange the labels of the first two gates by three renames (no gate is added or
    removed), then evaluate under every partial assignment again: answers must be sound for the circuit as
    it is NOW."""
    from cirbo.core.circuit.operators import Undefined

    k = len(gates)
    if k < 2:
        return
    labs = space.labels(n, k)
    c = space.build(n, gates, space.sinks(n, gates))
    case = lambda: {**space.spec_json(n, gates), 'scenario': 'evaluate, swap labels g0<->g1 by renames, evaluate'}  # noqa: E731
    try:
        c.evaluate_full_circuit({})
        c.get_gates_truth_table()
        c.evaluate_circuit({})
        c.rename_gate('g0', 'zz_tmp')
        c.rename_gate('g1', 'g0')
        c.rename_gate('zz_tmp', 'g1')
    except Exception as e:  # noqa: BLE001
        acc.violation(f'relabel/raises-{type(e).__name__}', case, repr(e))
        return
    net = refmodel.abstract(c)
    ref = net.tables()
    mask = (1 << (1 << n)) - 1
    iv = refmodel.input_vectors_cached(n)
    for p in itertools.product(range(3), repeat=n):
        comp = mask
        for i, v in enumerate(p):
            if v == 1:
                comp &= iv[i]
            elif v == 0:
                comp &= iv[i] ^ mask
        a = {labs[i]: bool(v) for i, v in enumerate(p) if v != 2}
        for entry, fn in (('evaluate_full_circuit', c.evaluate_full_circuit), ('evaluate_circuit', c.evaluate_circuit)):
            acc.transitions += 1
            ok, res = guarded(acc, entry, case, fn, dict(a))
            if not ok:
                return
            if entry == 'evaluate_full_circuit' and set(res) != set(net.gates):
                acc.violation(f'{entry}/wrong-keys-after-relabel', case, sorted(res))
                return
            for l, v in res.items():
                if _isb(v) and l in ref:
                    r = ref[l] & comp
                    if (v and r != comp) or (not v and r != 0):
                        acc.violation(f'{entry}/unsound-after-relabel', case, f'partial {p}: gate {l} reported {v}')
                        return
                elif 2 not in p and entry == 'evaluate_full_circuit':
                    acc.violation(f'{entry}/undefined-under-total-assignment-after-relabel', case, f'gate {l}')
                    return


def _comp_mask(p, iv, mask):
    comp = mask
    for i, v in enumerate(p):
        if v == 1:
            comp &= iv[i]
        elif v == 0:
            comp &= iv[i] ^ mask
    return comp


def check_requests(n, gates, acc):
    """evaluate_circuit(outputs=<every ordered list of up to three distinct gates, and every permutation of all
    gates with x0 inserted at every position>), evaluate(list) and evaluate_at(list, i) on a circuit whose
    outputs interleave gates with inputs at positions different from their input positions."""
    from cirbo.core.circuit.operators import Undefined

    k = len(gates)
    labs = space.labels(n, k)
    net = space.spec_net(n, gates)
    ref = net.tables()
    mask = (1 << (1 << n)) - 1
    iv = refmodel.input_vectors_cached(n)
    glabs = labs[n:]
    outs_idx = [n + k - 1] + list(range(n - 1, -1, -1)) + [n] + ([0] if n else [])
    c = space.build(n, gates, tuple(outs_idx))
    out_labs = [labs[i] for i in outs_idx]
    cones = {l: net.reach_back([l]) for l in labs}
    requests = []
    for m in range(1, min(3, k) + 1):
        requests.extend(itertools.permutations(glabs, m))
    if n and k <= 3:
        for perm in itertools.permutations(glabs):
            for pos in range(k + 1):
                requests.append(perm[:pos] + (labs[0],) + perm[pos:])
    acc.states += 1
    results = {}
    st = (False, True, Undefined)
    for p in itertools.product(range(3), repeat=n):
        comp = _comp_mask(p, iv, mask)

        def sound(l, v):
            r = ref[l] & comp
            return (r == comp) if v else (r == 0)

        a = {labs[i]: bool(v) for i, v in enumerate(p) if v != 2}
        total = 2 not in p
        for req in requests:
            acc.transitions += 1
            acc.traces += 1
            case = lambda: {**space.spec_json(n, gates), 'partial': ['FTU'[v] for v in p], 'requested': list(req)}  # noqa: E731
            ok, res = guarded(acc, 'evaluate_circuit', case, c.evaluate_circuit, dict(a), outputs=list(req))
            if not ok:
                continue
            need = set().union(*(cones[l] for l in req))
            bad = False
            for l, v in res.items():
                if _isb(v):
                    if l in ref and not sound(l, v):
                        acc.violation('evaluate_circuit/unsound', case, f'outputs={list(req)}: gate {l} reported {v}')
                        bad = True
                        break
                elif not (v == Undefined):
                    acc.violation('evaluate_circuit/not-a-gate-state', case, f'{l}: {v!r}')
                    bad = True
                    break
                elif total and l in need:
                    acc.violation('evaluate_circuit/undefined-under-total-assignment', case, f'outputs={list(req)}: gate {l}')
                    bad = True
                    break
            if not bad:
                for l in req:
                    if l not in res:
                        acc.violation('evaluate_circuit/requested-gate-missing', case, f'{l}')
                        break
            results[(req, p)] = res
        seq = [st[v] for v in p]
        case = lambda: {**space.spec_json(n, gates), 'outputs': outs_idx, 'partial': ['FTU'[v] for v in p], 'entry': 'evaluate / evaluate_at'}  # noqa: E731
        acc.transitions += 1 + len(out_labs)
        ok, res = guarded(acc, 'evaluate', case, c.evaluate, list(seq))
        vals = [res] if ok else []
        if ok and len(res) != len(out_labs):
            acc.violation('evaluate/wrong-length', case, f'{res!r}')
            vals = []
        ats = []
        for j in range(len(out_labs)):
            ok2, v = guarded(acc, 'evaluate_at', case, c.evaluate_at, list(seq), j)
            ats.append(v if ok2 else None)
        for name, row in [('evaluate', vals[0] if vals else None), ('evaluate_at', ats)]:
            if row is None:
                continue
            for j, v in enumerate(row):
                l = out_labs[j]
                if _isb(v):
                    if not sound(l, v):
                        acc.violation(f'{name}/unsound', case, f'output #{j} ({l}) reported {v}')
                        break
                elif v is None:
                    continue
                elif not (v == Undefined):
                    acc.violation(f'{name}/not-a-gate-state', case, f'#{j}: {v!r}')
                    break
                elif total:
                    acc.violation(f'{name}/undefined-under-total-assignment', case, f'output #{j} ({l})')
                    break
            results[(name, p)] = dict(enumerate(row))
    for (entry, p), res in results.items():
        for pos in range(n):
            if p[pos] != 2:
                continue
            for b in (0, 1):
                q = p[:pos] + (b,) + p[pos + 1:]
                rq = results.get((entry, q))
                if rq is None:
                    continue
                for l, v in res.items():
                    if _isb(v) and rq.get(l) is not v:
                        site = entry if isinstance(entry, str) else 'evaluate_circuit'
                        acc.violation(
                            f'{site}/non-monotone',
                            lambda: {**space.spec_json(n, gates), 'outputs': outs_idx, 'requested': list(entry) if not isinstance(entry, str) else entry,
                                     'p': ['FTU'[v_] for v_ in p], 'q': ['FTU'[v_] for v_ in q]},
                            f'{entry}: {l}: {v} under p but {rq.get(l)!r} under q',
                        )
                        break


def check_deep(acc, pattern, L, storage):
    """Partial assignments on a chain deeper than the recursion limit: all 3^3 assignments x entry points."""
    from cirbo.core.circuit.operators import Undefined

    c, net = space.deep_chain(pattern, L, storage)
    return _check_partial(acc, c, net, {'deep_chain': pattern, 'length': L, 'storage': storage}, ('deep', pattern, L))


PREFIX_TYPES = (('AND', 'OR', 'XOR'), ('NAND', 'NOR', 'NXOR'), ('XOR', 'AND', 'NOR', 'OR'))


def prefix_net(n, K, types, window):
    """densely shared circuit: gate k reads ALL earlier nodes oldest-first (window None) or the last `window` of
    them; gate types cycle through `types`"""
    ins = [f'x{i}' for i in range(n)]
    gates = {i: ('INPUT', ()) for i in ins}
    nodes = list(ins)
    for k_ in range(K):
        ops = tuple(nodes if window is None else nodes[-window:])
        if len(ops) == 1:
            ops = ops * 2
        gates[f'p{k_}'] = (types[k_ % len(types)], ops)
        nodes.append(f'p{k_}')
    return refmodel.Net(ins, [nodes[-1], nodes[len(nodes) // 2], nodes[n]], gates)


def check_prefix(acc, n, K, ti, window):
    net = prefix_net(n, K, PREFIX_TYPES[ti], window)
    c = space.build_from_net(net)
    return _check_partial(acc, c, net, {'prefix_circuit': [n, K, ti, window]}, ('prefix', n, K, window))


def _check_partial(acc, c, net, case, tag):
    from cirbo.core.circuit.operators import Undefined

    ref = net.tables()
    n = len(net.inputs)
    mask = (1 << (1 << n)) - 1
    iv = refmodel.input_vectors_cached(n)
    acc.states += 1
    st = (False, True, Undefined)
    results = {}
    for p in itertools.product(range(3), repeat=n):
        comp = _comp_mask(p, iv, mask)
        total = 2 not in p
        a = {net.inputs[i]: bool(v) for i, v in enumerate(p) if v != 2}

        def judge(site, items, evaluated):
            for l, v in items:
                if _isb(v):
                    r = ref[l] & comp
                    if (v and r != comp) or (not v and r != 0):
                        acc.violation(f'{site}/unsound', case, f'partial {p}: {l} reported {v}')
                        return
                elif not (v == Undefined):
                    acc.violation(f'{site}/not-a-gate-state', case, f'{l}: {v!r}')
                    return
                elif total and (evaluated is None or l in evaluated):
                    acc.violation(f'{site}/undefined-under-total-assignment', case, f'partial {p}: {l}')
                    return

        runs = [('evaluate_full_circuit', lambda: c.evaluate_full_circuit(dict(a)), None),
                ('evaluate_circuit', lambda: c.evaluate_circuit(dict(a)), set(net.outputs)),
                ('evaluate_circuit_outputs', lambda: c.evaluate_circuit_outputs(dict(a)), set(net.outputs))]
        for site, fn, evaluated in runs:
            acc.transitions += 1
            acc.traces += 1
            ok, res = guarded(acc, site, case, fn)
            if ok:
                judge(site, res.items(), evaluated)
                results[(site, p)] = {l: res.get(l) for l in net.outputs}
        seq = [st[v] for v in p]
        acc.transitions += 1 + len(net.outputs)
        ok, res = guarded(acc, 'evaluate', case, c.evaluate, list(seq))
        if ok:
            judge('evaluate', zip(net.outputs, res), None)
            results[('evaluate', p)] = dict(zip(net.outputs, res))
        for i, o in enumerate(net.outputs):
            ok, v = guarded(acc, 'evaluate_at', case, c.evaluate_at, list(seq), i)
            if ok:
                judge('evaluate_at', [(o, v)], None)
    for (site, p), res in results.items():
        for pos in range(n):
            if p[pos] != 2:
                continue
            for b in (0, 1):
                rq = results.get((site, p[:pos] + (b,) + p[pos + 1:]))
                if rq is None:
                    continue
                for l, v in res.items():
                    if _isb(v) and rq.get(l) is not v:
                        acc.violation(f'{site}/non-monotone', case, f'{l}: {v} under {p}, {rq.get(l)!r} with input {pos} := {b}')
                        break
    acc.outcome('defined', tag)


WIDE_ARITIES = (255, 256, 257, 300)


def wide_vectors(ar):
    """stated operand alphabet for very wide gates: (name, list of 0/1/2) with 2 = Undefined"""
    mid = ar // 2
    out = [('all-true', [1] * ar), ('all-false', [0] * ar), ('alternating', [i % 2 for i in range(ar)])]
    for pos in (0, mid, ar - 2, ar - 1):
        for base in (0, 1):
            for val in (1 - base, 2):
                v = [base] * ar
                v[pos] = val
                out.append((f'all-{base}-but-{val}-at-{pos}', v))
    v = [1] * ar
    v[0], v[ar - 1] = 2, 0
    out.append(('undefined-first-false-last', v))
    v = [0] * ar
    v[1], v[ar - 1] = 2, 1
    out.append(('undefined-second-true-last', v))
    v = [1] * ar
    v[255 if ar > 255 else ar - 1] = 2
    out.append(('undefined-at-255', v))
    return out


def check_wide_ops(acc, boolean_only=False, prefix=''):
    """n-ary gate types with 255..300 operands (beyond any call-arity or block-size threshold): the operator
    itself and a one-gate circuit through the evaluation entry points."""
    from cirbo.core.circuit import Circuit, gate as G
    from cirbo.core.circuit.operators import Undefined

    st = (False, True, Undefined)
    for t in refmodel.SYM:
        for ar in WIDE_ARITIES:
            ins = [f'w{i}' for i in range(ar)]
            c = Circuit()
            c.add_inputs(ins)
            c.emplace_gate('wide', getattr(G, t), tuple(ins))
            c.emplace_gate('after', G.NOT, ('wide',))
            c.set_outputs(['wide', 'after'])
            c = space.variant(c)
            for name, vec in wide_vectors(ar):
                if boolean_only and 2 in vec:
                    continue
                acc.states += 1
                acc.transitions += 3
                acc.traces += 1
                case = {'type': t, 'arity': ar, 'operands': name}
                und = [i for i, v in enumerate(vec) if v == 2]
                poss = set()
                for comb in itertools.product((False, True), repeat=len(und)):
                    full = [bool(v) for v in vec]
                    for i, b in zip(und, comb):
                        full[i] = b
                    poss.add(refmodel.gate_bool(t, full))
                ops = [st[v] for v in vec]
                results = []
                try:
                    results.append(('operator', getattr(G, t).operator(*ops)))
                    results.append(('Gate.operator', c.get_gate('wide').operator(*ops)))
                    a = {ins[i]: bool(v) for i, v in enumerate(vec) if v != 2}
                    r = c.evaluate_circuit(a)
                    results.append(('evaluate_circuit', r['wide']))
                    results.append(('evaluate_circuit(after)', r['after'] if not _isb(r['after']) else (not r['after'])))
                    r = c.evaluate_full_circuit(a)
                    results.append(('evaluate_full_circuit', r['wide']))
                    if not und:
                        results.append(('evaluate', c.evaluate([bool(v) for v in vec])[0]))
                except Exception as e:  # noqa: BLE001
                    acc.violation(f'{prefix}wide-gate/raises-{type(e).__name__}', case, repr(e)[:200])
                    continue
                for site, v in results:
                    if _isb(v):
                        if poss != {v}:
                            acc.violation(f'{prefix}{site}/unsound' if und else f'{prefix}{site}/wrong-value', case, f'reports {v}, completions give {sorted(poss)}')
                            break
                    elif not (v == Undefined):
                        acc.violation(f'{prefix}{site}/not-a-gate-state', case, repr(v))
                        break
                    elif not und:
                        acc.violation(f'{prefix}{site}/undefined-under-total-assignment', case, '')
                        break
                acc.outcome('op', (t, ar, name))


def check_after_removal(n, gates, acc):
    """A helper gate is added on top of every gate in turn and removed again (remove_gate), so that some gate has
    lost its last user; then every entry point under every partial assignment."""
    from cirbo.core.circuit import gate as G

    k = len(gates)
    if k < 1:
        return
    labs = space.labels(n, k)
    for victim in labs[n:]:
        c = space.build(n, gates, (n + k - 1,))
        try:
            c.emplace_gate('zz_tmp_user', G.NOT, (victim,))
            c.emplace_gate('zz_tmp_user2', G.AND, ('zz_tmp_user', victim))
            c.remove_gate('zz_tmp_user2')
            c.remove_gate('zz_tmp_user')
        except Exception as e:  # noqa: BLE001
            acc.violation(f'remove_gate/raises-{type(e).__name__}', lambda: space.spec_json(n, gates), repr(e)[:200])
            return
        net = refmodel.abstract(c)
        _check_partial(acc, c, net, {**space.spec_json(n, gates), 'after_removing_a_user_of': victim}, ('removal', n, k))


def run_task(task, acc):
    if task['kind'] == 'ops':
        return check_ops(acc)
    if task['kind'] == 'wideops':
        return check_wide_ops(acc)
    if task['kind'] == 'deep':
        return check_deep(acc, task['pattern'], task['L'], task['storage'])
    if task['kind'] == 'prefix':
        for K in task['Ks']:
            for ti in range(len(PREFIX_TYPES)):
                check_prefix(acc, task['n'], K, ti, task['window'])
        return
    alpha = ALPHAS[task['alpha']]
    if task['kind'] == 'req':
        for gates in space.enum_gates(task['n'], task['k'], alpha, space.prefix_from_task(task)):
            check_requests(task['n'], gates, acc)
        return
    for gates in space.enum_gates(task['n'], task['k'], alpha, space.prefix_from_task(task)):
        check_circuit(task['n'], gates, acc)
        check_after_relabel(task['n'], gates, acc)
        check_requests(task['n'], gates, acc)
        check_after_removal(task['n'], gates, acc)


def replay(case, acc):
    if 'task' in case:
        return run_task(case['task'], acc)
    if 'deep_chain' in case:
        return check_deep(acc, case['deep_chain'], case['length'], case['storage'])
    if 'arity' in case:
        return check_wide_ops(acc)
    if 'after_removing_a_user_of' in case:
        n, gates, _ = space.spec_from_json(case)
        return check_after_removal(n, gates, acc)
    if 'prefix_circuit' in case:
        return check_prefix(acc, *case['prefix_circuit'])
    if 'gates' in case:
        n, gates, _ = space.spec_from_json(case)
        if 'scenario' in case:
            return check_after_relabel(n, gates, acc)
        if 'requested' in case or 'entry' in case:
            return check_requests(n, gates, acc)
        return check_circuit(n, gates, acc)
    return check_ops(acc)
