"""E1 - circuit-space enumeration.

A circuit of F(n, k, A) is the history add_inputs(x0..x{n-1}); emplace_gate(g0, ...);
...; emplace_gate(g{k-1}, ...): gate i takes any (type, arity) of alphabet A and any
operand tuple over the n+i earlier nodes (repeats allowed, order significant).
A spec is (n, gates) with gates = tuple of (type_name, operand_index_tuple).
Node index i < n is input x{i}; node n+j is gate g{j}.
"""

import itertools

from vmc import refmodel

U = (('NOT', 1), ('IFF', 1))
S = tuple((t, 2) for t in refmodel.SYM)
C = tuple((t, 2) for t in refmodel.CMP)
L = tuple((t, 2) for t in refmodel.LR)
K = (('ALWAYS_TRUE', 0), ('ALWAYS_FALSE', 0))
S3 = tuple((t, 3) for t in refmodel.SYM)
S4 = tuple((t, 4) for t in refmodel.SYM)
FULL = U + S + C + L + K + S3
FULL_NO3 = U + S + C + L + K


def alphabet(*names_or_pairs):
    out = []
    for x in names_or_pairs:
        if isinstance(x, tuple):
            out.append(x)
        else:
            ar = 1 if x in refmodel.UNARY else 0 if x in refmodel.CONST else 2
            out.append((x, ar))
    return tuple(out)


def gate_choices(p, alpha):
    """All (type, operands) with operands over nodes 0..p-1; simplest first."""
    out = []
    for t, ar in alpha:
        if ar == 0:
            out.append((t, ()))
        else:
            for ops in itertools.product(range(p), repeat=ar):
                out.append((t, ops))
    return out


def count(n, k, alpha):
    c = 1
    for i in range(k):
        c *= len(gate_choices(n + i, alpha))
    return c


def enum_gates(n, k, alpha, prefix=()):
    """All gate tuples of length k extending `prefix`."""
    if len(prefix) == k:
        yield tuple(prefix)
        return
    choices = [gate_choices(n + i, alpha) for i in range(len(prefix), k)]
    for rest in itertools.product(*choices):
        yield tuple(prefix) + rest


def tasks(n, k, alpha, split=1):
    """Split F(n,k,alpha) into prefix tasks (first `split` gates fixed)."""
    split = min(split, k)
    return [
        {'n': n, 'k': k, 'prefix': [_jl(g) for g in pref]}
        for pref in enum_gates(n, split, alpha)
    ]


def _jl(g):
    return [g[0], list(g[1])]


def prefix_from_task(task):
    return tuple((g[0], tuple(g[1])) for g in task['prefix'])


def label(n, i, in_pref='x', g_pref='g'):
    return f'{in_pref}{i}' if i < n else f'{g_pref}{i - n}'


def labels(n, k, in_pref='x', g_pref='g'):
    return [label(n, i, in_pref, g_pref) for i in range(n + k)]


def spec_net(n, gates, outputs=(), labs=None):
    """Reference netlist of a spec; outputs are node indexes."""
    labs = labs or labels(n, len(gates))
    g = {}
    for i in range(n):
        g[labs[i]] = ('INPUT', ())
    for j, (t, ops) in enumerate(gates):
        g[labs[n + j]] = (t, tuple(labs[o] for o in ops))
    return refmodel.Net([labs[i] for i in range(n)], [labs[o] for o in outputs], g)


# Task-wide object variant (set by the engine from task['variant'] / case['variant']): every circuit a harness
# builds is handed to the library as another Python object - a copy.deepcopy or a pickle round trip, whose
# GateType objects are equal to but not identical with the module constants - or, for 'fresh-labels', is
# built from label strings that are equal to but not identical with the ones used in later calls.
VARIANT = [None]


def variant(c):
    v = VARIANT[0]
    if v == 'scrambled':
        # users-first storage order of the gate map (as after parsing a text with forward references)
        try:
            return scramble_storage(c)
        except Exception:  # noqa: BLE001
            return c
    if v == 'deepcopy':
        import copy

        return copy.deepcopy(c)
    if v == 'pickle':
        import pickle

        return pickle.loads(pickle.dumps(c))
    return c


def fresh_str(s):
    """an equal but not identical (not interned) string"""
    return ''.join(list(s)) if len(s) > 1 else (s + '_')[:-1] if s else s


def build(n, gates, outputs=(), labs=None):
    """The real circuit, through the public API."""
    from cirbo.core.circuit import Circuit, gate as G

    labs = labs or labels(n, len(gates))
    if VARIANT[0] == 'fresh-labels':
        f = fresh_str
    else:
        f = lambda x: x  # noqa: E731
    if VARIANT[0] == 'requeried':
        return _build_requeried(n, gates, outputs, labs)
    c = Circuit()
    c.add_inputs([f(labs[i]) for i in range(n)])
    for j, (t, ops) in enumerate(gates):
        c.emplace_gate(f(labs[n + j]), getattr(G, t), tuple(f(labs[o]) for o in ops))
    if outputs:
        c.set_outputs([f(labs[o]) for o in outputs])
    return variant(c)


def warm_up_queries(c):
    """Every read-only public query, so that anything the library might remember about this object exists."""
    import copy
    import itertools as it

    n = len(c.inputs)
    qs = [c.get_truth_table, c.get_gates_truth_table, lambda: list(c.top_sort()), lambda: list(c.top_sort(inverse=True)),
          c.format_circuit, lambda: copy.copy(c), c.is_constant, c.is_monotone, c.is_symmetric,
          lambda: c.evaluate_full_circuit({}), lambda: c.evaluate_circuit({}), lambda: list(c.dfs()), lambda: list(c.bfs())]
    if n <= 4:
        for x in it.product((False, True), repeat=n):
            qs.append(lambda x=x: c.evaluate(list(x)))
            qs.append(lambda x=x: [c.evaluate_at(list(x), i) for i in range(len(c.outputs))])
            qs.append(lambda x=x: c.evaluate_full_circuit(dict(zip(c.inputs, x))))
    try:
        from cirbo.sat.cnf import tseytin_transformation

        qs.append(lambda: tseytin_transformation(c))
    except Exception:  # noqa: BLE001
        pass
    try:
        from cirbo.circuits_db.circuits_encoding import encode_circuit

        qs.append(lambda: encode_circuit(c))
    except Exception:  # noqa: BLE001
        pass
    for q in qs:
        try:
            q()
        except Exception:  # noqa: BLE001
            pass


def _build_requeried(n, gates, outputs, labs):
    """The same circuit, reached by a detour: a precursor (inputs declared in reverse order, last gate of another
    type, other outputs) is built, queried in every read-only way, and then turned into the wanted circuit by
    public mutators.  Whatever the library remembered about the precursor is stale now."""
    from cirbo.core.circuit import Circuit, gate as G

    c = Circuit()
    c.add_inputs([labs[i] for i in range(n)])
    c.set_inputs([labs[i] for i in reversed(range(n))])
    k = len(gates)
    for j, (t, ops) in enumerate(gates):
        if j == k - 1:
            alt = 'NOR' if len(ops) >= 2 and t != 'NOR' else 'OR' if len(ops) >= 2 else ('IFF' if t == 'NOT' else 'NOT') if len(ops) == 1 else ('ALWAYS_FALSE' if t == 'ALWAYS_TRUE' else 'ALWAYS_TRUE')
            c.emplace_gate(labs[n + j], getattr(G, alt), tuple(labs[o] for o in ops))
        else:
            c.emplace_gate(labs[n + j], getattr(G, t), tuple(labs[o] for o in ops))
    pre_outs = [labs[n + k - 1]] if k else ([labs[0]] if n else [])
    c.set_outputs(pre_outs)
    warm_up_queries(c)
    c.set_outputs([])
    if k:
        t, ops = gates[-1]
        c.remove_gate(labs[n + k - 1])
        c.emplace_gate(labs[n + k - 1], getattr(G, t), tuple(labs[o] for o in ops))
    c.set_inputs([labs[i] for i in range(n)])
    c.set_outputs([labs[o] for o in outputs] if outputs else [])
    return c


def build_from_net(net):
    """Real circuit from a reference netlist (storage order = net.gates order when it
    is topological; otherwise insertion follows a topological order)."""
    from cirbo.core.circuit import Circuit, gate as G

    c = Circuit()
    done = set()
    pending = list(net.gates.items())
    # inputs first in the net's input order
    for i in net.inputs:
        c.emplace_gate(i, G.INPUT)
        done.add(i)
    progress = True
    while pending and progress:
        progress = False
        rest = []
        for lab, (t, ops) in pending:
            if lab in done:
                continue
            if all(o in done for o in ops):
                c.emplace_gate(lab, getattr(G, t), tuple(ops))
                done.add(lab)
                progress = True
            else:
                rest.append((lab, (t, ops)))
        pending = rest
    if pending:
        raise ValueError('cannot build cyclic net')
    c.set_outputs(list(net.outputs))
    for name, (bi, bg, bo) in net.blocks.items():
        c.make_block(name, list(bg), list(bo), list(bi))
    return variant(c)


def sinks(n, gates):
    used = set()
    for _, ops in gates:
        used.update(ops)
    return [i for i in range(n + len(gates)) if i not in used]


def output_policies(n, k, max_len=2, with_none=True, with_sinks=True, gates=None):
    """Output index tuples: none, every sequence of <= max_len nodes (repeats, inputs
    included), all sinks."""
    p = n + k
    seen = set()
    out = []
    if with_none:
        out.append(())
        seen.add(())
    for ln in range(1, max_len + 1):
        for seq in itertools.product(range(p), repeat=ln):
            out.append(seq)
            seen.add(seq)
    if with_sinks and gates is not None:
        s = tuple(sinks(n, gates))
        if s not in seen:
            out.append(s)
    return out


def spec_json(n, gates, outputs=None):
    d = {'n': n, 'gates': [_jl(g) for g in gates]}
    if outputs is not None:
        d['outputs'] = list(outputs)
    return d


def spec_from_json(d):
    return d['n'], tuple((g[0], tuple(g[1])) for g in d['gates']), tuple(d.get('outputs', ()))


def bench_text(net, order=None):
    """Bench text of a netlist with gate lines in `order` (labels of non-input gates);
    used for storage permutations through the public parser."""
    lines = [f'INPUT({i})' for i in net.inputs]
    order = order if order is not None else [k for k, (t, _) in net.gates.items() if t != 'INPUT']
    for k in order:
        t, ops = net.gates[k]
        name = 'BUFF' if t == 'IFF' else t
        lines.append(f'{k} = {name}({", ".join(ops)})')
    lines += [f'OUTPUT({o})' for o in net.outputs]
    return '\n'.join(lines) + '\n'


def scramble_storage(c):
    """Reverse the storage order of the gate map through public calls only (a renamed gate moves to the
    end of the map); labels, interface and function are unchanged, the map is no longer operands-first."""
    for l in reversed(list(c.gates)):
        c.rename_gate(l, l + '_tmpz')
        c.rename_gate(l + '_tmpz', l)
    return c


def with_variants(tasks, variants=('deepcopy',), limit=None):
    """copies of (the first `limit`) tasks that run under an object variant"""
    out = []
    for v in variants:
        for t in (tasks if limit is None else tasks[:limit]):
            out.append({**t, 'variant': v})
    return out


def identity_variants(c):
    """The same circuit as other Python objects: copy.deepcopy and a pickle round trip create GateType
    objects that are equal to, but not identical with, the module constants."""
    import copy
    import pickle

    yield 'deepcopy', copy.deepcopy(c)
    yield 'pickle', pickle.loads(pickle.dumps(c))


# -- deep chains ---------------------------------------------------------------------
# Depth is an axis of its own: Python's recursion limit (1000) turns any recursive walk into a size threshold.
DEEP_PATTERNS = {
    'not-and': [('NOT', 'p'), ('AND', 'p', 'x1')],
    'cmp': [('LT', 'p', 'x1'), ('GEQ', 'x1', 'p'), ('GT', 'p', 'x2'), ('LEQ', 'p', 'x1')],
    'lr': [('LNOT', 'p', 'x1'), ('RIFF', 'x1', 'p'), ('RNOT', 'x2', 'p'), ('LIFF', 'p', 'x2')],
    'xor-nor': [('XOR', 'p', 'x1'), ('NOR', 'p', 'x2'), ('NXOR', 'x1', 'p'), ('NAND', 'p', 'p')],
    'iff-not': [('IFF', 'p'), ('NOT', 'p'), ('NOT', 'p')],
    'or3': [('OR', 'p', 'x1', 'p'), ('XOR', 'x2', 'p', 'x1'), ('NOT', 'p')],
}
DEEP_LENGTHS = {'quick': (1200, 3000), 'thorough': (1200, 3000, 7000)}
HUGE_LENGTH = 70000  # 1.5 MB of bench text, > 2^17 clauses, > 2^16 gates (operands-first storage only: reversing by renames is quadratic)


def deep_chain_net(pattern, L, n_in=3, outputs='last-mid-x0'):
    """reference netlist of a chain of L gates over inputs x0..x{n_in-1}; gate i is labelled c<i>"""
    from vmc import refmodel

    steps = DEEP_PATTERNS[pattern]
    ins = [f'x{i}' for i in range(n_in)]
    gates = {i: ('INPUT', ()) for i in ins}
    prev = 'x0'
    for i in range(L):
        t, *ops = steps[i % len(steps)]
        ops = tuple(prev if o == 'p' else (o if o in ins else 'x0') for o in ops)
        gates[f'c{i}'] = (t, ops)
        prev = f'c{i}'
    outs = [prev] if outputs == 'last' else [prev, f'c{L // 2}', 'x0']
    return refmodel.Net(ins, outs, gates)


def deep_chain(pattern, L, storage='fwd', n_in=3, outputs='last-mid-x0'):
    """(circuit, net).  storage 'rev': the gate map lists every gate before its operand (built through the
    bench reader from a text that lists the gates from the output down, when the pattern is printable in
    bench; otherwise by renaming)."""
    net = deep_chain_net(pattern, L, n_in, outputs)
    c = build_from_net(net)
    if storage == 'rev':
        c = scramble_storage(c)
    return c, net
