#!/bin/sh
# offline setup: nothing to download or install; build optional C helpers and self-test the trusted base
cd "$(dirname "$0")/.." || exit 1
chmod +x check
export PYTHONDONTWRITEBYTECODE=1
export PYTHONPATH="${VERIF_REPO:-/repo}:$PWD/shims:$PWD"
PY=/venv/bin/python
[ -x "$PY" ] || PY=python3
exec "$PY" -m vmc.selftest
