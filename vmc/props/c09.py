"""C09 - subtraction, division, sqrt, comparison and gadget generators are exact.

Every width / endianness / constant / option combination within the bounds, on fresh
inputs, on non-input operands and inside a host circuit; all operand values.
"""

import itertools
import math

from vmc import arith, refmodel

ID = 'C09'


def _host(h, k):
    if h.startswith('F') and h[1:].isdigit():
        from vmc.props.c07 import folded_host

        return folded_host(int(h[1:]), k)
    if h in ('ORI0', 'ORI1'):
        return arith.oriented_host(k, h == 'ORI1')
    if h == 'SATW':
        return arith.saturated_host(k, wide=True)
    if h == 'DEC':
        return arith.decoy_host(k)
    return arith.host(h, k)


def _hosts(k, which=('H0', 'H1')):
    for h in which:
        c, ops = _host(h, k)
        yield h, c, ops
    if which == ('H0', 'H1') and 2 <= k <= 4:
        # hosts that already hold the gates a generator is about to create / n-ary decoys containing their operands /
        # the asymmetric gates in one orientation only
        for h in ('SATW', 'DEC', 'ORI0', 'ORI1'):
            c, ops = _host(h, k)
            yield h, c, ops


def _run(acc, fn_name, case, feats, c, call):
    acc.states += 1
    acc.traces += 1
    acc.transitions += 1
    before = arith.snapshot(c)
    try:
        res = call()
    except Exception as e:  # noqa: BLE001
        acc.violation(f'{fn_name}/raises-{type(e).__name__}', case, repr(e), feats)
        return None
    return before, res


def _tabs(acc, fn_name, case, feats, c, before, new_outputs=()):
    ok, net = arith.host_untouched(acc, fn_name, case, c, before, feats, allow_new_outputs=new_outputs)
    if not ok:
        return None
    try:
        return net, net.tables()
    except Exception as e:  # noqa: BLE001
        acc.violation(f'{fn_name}/result-not-evaluable', case, repr(e), feats)
        return None


def check_sub(acc, na, nb, be, htag, c, ops, compare):
    from cirbo.synthesis.generation.arithmetics import add_sub_two_numbers, add_subtract_with_compare

    fn = 'add_subtract_with_compare' if compare else 'add_sub_two_numbers'
    case = {'fn': fn, 'na': na, 'nb': nb, 'big_endian': be, 'host': htag}
    feats = {'big_endian': be, 'equal_width': na == nb, 'host': htag}
    a, b = list(ops[:na]), list(ops[na:na + nb])
    r = _run(acc, fn, case, feats, c, lambda: (add_subtract_with_compare if compare else add_sub_two_numbers)(c, list(a), list(b), big_endian=be))
    if r is None:
        return
    before, res = r
    t = _tabs(acc, fn, case, feats, c, before)
    if t is None:
        return
    net, tabs = t
    rows = 1 << len(net.inputs)
    va = arith.decode_rows(tabs, a, rows, be)
    vb = arith.decode_rows(tabs, b, rows, be)
    if compare:
        bits, flag = res
    else:
        bits, flag = res, None
    L = len(bits)
    if not compare and L != na:
        acc.violation(f'{fn}/result-width', case, f'{L} bits for len(a)={na}', feats)
        return
    if compare and L != max(na, nb):
        acc.violation(f'{fn}/result-width', case, f'{L} bits, widths {na},{nb}', feats)
        return
    got = arith.decode_rows(tabs, bits, rows, be)
    for j in range(rows):
        if got[j] != (va[j] - vb[j]) % (1 << L):
            acc.violation(f'{fn}/wrong-difference', case, f'a={va[j]} b={vb[j]} got {got[j]} on {L} bits', feats)
            return
    if compare:
        fl = tabs[flag]
        for j in range(rows):
            if bool((fl >> j) & 1) != (va[j] < vb[j]):
                acc.violation(f'{fn}/wrong-borrow-flag', case, f'a={va[j]} b={vb[j]} flag={(fl >> j) & 1}', feats)
                return
    acc.outcome('c09', (fn, na, nb, be))


def check_sub_live_inputs(acc, na, nb, be, compare):
    """Operand a is the host's own (live) input list, operand b are gates of the host: the host's interface
    must be untouched and the result exact."""
    from cirbo.core.circuit import Circuit, gate as G
    from cirbo.synthesis.generation.arithmetics import add_sub_two_numbers, add_subtract_with_compare

    fn = 'add_subtract_with_compare' if compare else 'add_sub_two_numbers'
    case = {'fn': fn, 'na': na, 'nb': nb, 'big_endian': be, 'host': 'live-inputs'}
    feats = {'host': 'live-inputs', 'big_endian': be}
    c = Circuit()
    c.add_inputs([f'in{i}' for i in range(na)])
    b = []
    for i in range(nb):
        lab = f'nb{i}'
        c.emplace_gate(lab, G.NOT if i % 2 else G.IFF, (f'in{i % na}',))
        b.append(lab)
    c.set_outputs([b[0]])
    a_expected = list(c.inputs)
    b_expected = list(b)
    r = _run(acc, fn, case, feats, c, lambda: (add_subtract_with_compare if compare else add_sub_two_numbers)(c, c.inputs, b, big_endian=be))
    if r is None:
        return
    before, res = r
    t = _tabs(acc, fn, case, feats, c, before)
    if t is None:
        return
    net, tabs = t
    rows = 1 << len(net.inputs)
    va = arith.decode_rows(tabs, a_expected, rows, be)
    vb = arith.decode_rows(tabs, b_expected, rows, be)
    bits, flag = res if compare else (res, None)
    L = len(bits)
    got = arith.decode_rows(tabs, bits, rows, be)
    for j in range(rows):
        if got[j] != (va[j] - vb[j]) % (1 << L):
            acc.violation(f'{fn}/wrong-difference', case, f'a={va[j]} b={vb[j]} got {got[j]} on {L} bits', feats)
            return
    if compare:
        fl = tabs[flag]
        if any(bool((fl >> j) & 1) != (va[j] < vb[j]) for j in range(rows)):
            acc.violation(f'{fn}/wrong-borrow-flag', case, '', feats)
    if b != b_expected:
        acc.violation(f'{fn}/modifies-the-operand-list-it-was-given', case, f'{b} was {b_expected}', feats)


def check_generate_sub(acc, na, nb, be):
    from cirbo.synthesis.generation.arithmetics import generate_sub_two_numbers

    case = {'fn': 'generate_sub_two_numbers', 'na': na, 'nb': nb, 'big_endian': be}
    acc.states += 1
    acc.traces += 1
    acc.transitions += 1
    try:
        c = generate_sub_two_numbers(na, nb, big_endian=be)
    except Exception as e:  # noqa: BLE001
        acc.violation('generate_sub_two_numbers/raises', case, repr(e))
        return
    net = refmodel.abstract(c)
    tabs = net.tables()
    rows = 1 << len(net.inputs)
    va = arith.decode_rows(tabs, net.inputs[:na], rows, be)
    vb = arith.decode_rows(tabs, net.inputs[na:], rows, be)
    got = arith.decode_rows(tabs, net.outputs, rows, be)
    if len(net.outputs) != na or any(got[j] != (va[j] - vb[j]) % (1 << na) for j in range(rows)):
        acc.violation('generate_sub_two_numbers/wrong-difference', case, '')


def check_div_mod(acc, n, be, htag, c, ops):
    from cirbo.synthesis.generation.arithmetics import add_div_mod

    case = {'fn': 'add_div_mod', 'n': n, 'big_endian': be, 'host': htag}
    feats = {'host': htag}
    a, b = list(ops[:n]), list(ops[n:2 * n])
    r = _run(acc, 'add_div_mod', case, feats, c, lambda: add_div_mod(c, list(a), list(b), big_endian=be))
    if r is None:
        return
    before, (div, mod) = r
    t = _tabs(acc, 'add_div_mod', case, feats, c, before)
    if t is None:
        return
    net, tabs = t
    rows = 1 << len(net.inputs)
    va = arith.decode_rows(tabs, a, rows, be)
    vb = arith.decode_rows(tabs, b, rows, be)
    gd = arith.decode_rows(tabs, div, rows, be)
    gm = arith.decode_rows(tabs, mod, rows, be)
    if len(div) != n or len(mod) != n:
        acc.violation('add_div_mod/result-width', case, f'{len(div)},{len(mod)}', feats)
        return
    for j in range(rows):
        wd, wm = (va[j] // vb[j], va[j] % vb[j]) if vb[j] else (0, 0)
        if (gd[j], gm[j]) != (wd, wm):
            acc.violation('add_div_mod/wrong-result', case, f'a={va[j]} b={vb[j]} got ({gd[j]},{gm[j]}) expected ({wd},{wm})', {**feats, 'zero_divisor': vb[j] == 0})
            return
    acc.outcome('c09', ('div_mod', n, be))


def check_sqrt(acc, n, be, htag, c, ops):
    from cirbo.synthesis.generation.arithmetics import add_sqrt

    case = {'fn': 'add_sqrt', 'n': n, 'big_endian': be, 'host': htag}
    feats = {'host': htag, 'odd': n % 2 == 1}
    a = list(ops[:n])
    r = _run(acc, 'add_sqrt', case, feats, c, lambda: add_sqrt(c, list(a), big_endian=be))
    if r is None:
        return
    before, res = r
    t = _tabs(acc, 'add_sqrt', case, feats, c, before)
    if t is None:
        return
    net, tabs = t
    rows = 1 << len(net.inputs)
    va = arith.decode_rows(tabs, a, rows, be)
    got = arith.decode_rows(tabs, res, rows, be)
    if len(res) != (n + 1) // 2:
        acc.violation('add_sqrt/result-width', case, f'{len(res)} bits for n={n}', feats)
        return
    for j in range(rows):
        if got[j] != math.isqrt(va[j]):
            acc.violation('add_sqrt/wrong-root', case, f'a={va[j]} got {got[j]}', feats)
            return
    acc.outcome('c09', ('sqrt', n, be))


def check_equal(acc, n, num, htag, c, ops):
    from cirbo.synthesis.generation.arithmetics import add_equal

    case = {'fn': 'add_equal', 'n': n, 'num': num, 'host': htag}
    feats = {'host': htag, 'fits': num < (1 << n)}
    a = list(ops[:n])
    r = _run(acc, 'add_equal', case, feats, c, lambda: add_equal(c, list(a), num))
    if r is None:
        return
    before, lab = r
    t = _tabs(acc, 'add_equal', case, feats, c, before)
    if t is None:
        return
    net, tabs = t
    rows = 1 << len(net.inputs)
    va = arith.decode_rows(tabs, a, rows, False)
    if lab not in tabs:
        acc.violation('add_equal/result-label-is-not-a-gate', case, lab, feats)
        return
    v = tabs[lab]
    for j in range(rows):
        if bool((v >> j) & 1) != (va[j] == num):
            acc.violation('add_equal/wrong-result', case, f'value={va[j]} result={(v >> j) & 1}', feats)
            return
    acc.outcome('c09', ('equal', n, num < (1 << n)))


def check_equal_wide(acc, w):
    """Widths beyond exhaustive reach: constants around the top of the range x operand values {the constant,
    the constant with each single bit flipped, 0, all ones}, evaluated bit-parallel (one row per value)."""
    from cirbo.synthesis.generation.arithmetics import add_equal, generate_equal

    top = 1 << w
    consts = sorted({0, 1, top - 1, top - 2, top >> 1, (top >> 1) - 1, top, top + 1, int('10' * (w // 2 + 1), 2) % top, int('01' * (w // 2 + 1), 2) % top})
    for num in consts:
        vals = [0, top - 1] + ([num] if num < top else []) + [(num % top) ^ (1 << b) for b in range(w)]
        vals = [v for v in dict.fromkeys(vals) if 0 <= v < top]
        for via in ('generate', 'add'):
            acc.states += 1
            acc.traces += 1
            acc.transitions += 1
            case = {'fn': 'add_equal' if via == 'add' else 'generate_equal', 'n': w, 'num': num, 'values': 'stated alphabet'}
            try:
                if via == 'generate':
                    c = generate_equal(w, num)
                    ops = list(c.inputs)
                    out = c.outputs[0]
                else:
                    c, ops = arith.host('H1', w)
                    out = add_equal(c, list(ops), num)
            except Exception as e:  # noqa: BLE001
                acc.violation(f'add_equal/raises-{type(e).__name__}', case, repr(e))
                continue
            net = refmodel.abstract(c)
            rows = len(vals)
            mask = (1 << rows) - 1
            # input vectors: row r carries value vals[r] on the OPERANDS; for H1 operand j = IFF/NOT of input j
            ivec = []
            for j in range(w):
                v = 0
                for r, val in enumerate(vals):
                    bit = (val >> j) & 1
                    if via == 'add' and j % 2 == 1:
                        bit ^= 1  # operand j is NOT(input j)
                    v |= bit << r
                ivec.append(v)
            tabs = net.tables(ivec, mask)
            got = tabs[out]
            want = sum(1 << r for r, val in enumerate(vals) if val == num)
            if got != want:
                r = next(r for r in range(rows) if ((got >> r) & 1) != ((want >> r) & 1))
                acc.violation('add_equal/wrong-result', case, f'value={vals[r]:#x} result={(got >> r) & 1}', {'wide': True})
    acc.outcome('c09', ('equal-wide', w))
    acc.sample({'fn': 'generate_equal', 'n': w, 'num': top - 1, 'values': 'stated alphabet'})


def check_plus_one(acc, inp, out, be, add_outputs, give_labels, htag, c, ops):
    from cirbo.synthesis.generation.generation import add_plus_one

    case = {'fn': 'add_plus_one', 'inp': inp, 'out': out, 'big_endian': be, 'add_outputs': add_outputs, 'result_labels': give_labels, 'host': htag}
    feats = {'host': htag, 'add_outputs': add_outputs, 'operands_are_inputs': htag == 'H0'}
    a = list(ops[:inp])
    rl = [f'z{i}' for i in range(out)] if give_labels else None
    if not give_labels and out != inp + 1:
        return
    r = _run(acc, 'add_plus_one', case, feats, c, lambda: add_plus_one(c, list(a), result_labels=None if rl is None else list(rl), add_outputs=add_outputs, big_endian=be))
    if r is None:
        return
    before, res = r
    net0 = before[0]
    t = _tabs(acc, 'add_plus_one', case, feats, c, before, new_outputs=tuple(res) if add_outputs else ())
    if t is None:
        return
    net, tabs = t
    if give_labels and list(res) != rl:
        acc.violation('add_plus_one/returned-labels', case, str(res), feats)
        return
    if len(res) != out:
        acc.violation('add_plus_one/result-width', case, str(res), feats)
        return
    # outputs: exactly the old ones plus (iff asked) the result labels, result labels in order
    old = [o for o in net.outputs if o in net0.outputs or o not in res]
    new = [o for o in net.outputs if o in res and o not in net0.outputs]
    if sorted(old) != sorted(net0.outputs):
        acc.violation('add_plus_one/host-outputs-lost-or-duplicated', case, f'{net.outputs} was {net0.outputs}', feats)
        return
    if add_outputs and new != list(res):
        acc.violation('add_plus_one/outputs-not-marked-in-order', case, f'new outputs {new} expected {list(res)}', feats)
        return
    if not add_outputs and new:
        acc.violation('add_plus_one/marks-outputs-although-not-asked', case, f'{new}', feats)
        return
    rows = 1 << len(net.inputs)
    va = arith.decode_rows(tabs, a, rows, be)
    got = arith.decode_rows(tabs, res, rows, be)
    for j in range(rows):
        if got[j] != (va[j] + 1) % (1 << out):
            acc.violation('add_plus_one/wrong-value', case, f'x={va[j]} got {got[j]} on {out} bits', feats)
            return
    acc.outcome('c09', ('plus_one', inp, out, be, add_outputs))


def check_generate_plus_one(acc, inp, out, be):
    from cirbo.synthesis.generation.generation import generate_plus_one

    case = {'fn': 'generate_plus_one', 'inp': inp, 'out': out, 'big_endian': be}
    acc.states += 1
    acc.traces += 1
    acc.transitions += 1
    try:
        c = generate_plus_one(inp, out, big_endian=be)
    except Exception as e:  # noqa: BLE001
        acc.violation('generate_plus_one/raises', case, repr(e))
        return
    net = refmodel.abstract(c)
    tabs = net.tables()
    rows = 1 << inp
    if len(net.inputs) != inp or len(net.outputs) != out:
        acc.violation('generate_plus_one/shape', case, f'{net.inputs} {net.outputs}')
        return
    va = arith.decode_rows(tabs, net.inputs, rows, be)
    got = arith.decode_rows(tabs, net.outputs, rows, be)
    if any(got[j] != (va[j] + 1) % (1 << out) for j in range(rows)):
        acc.violation('generate_plus_one/wrong-value', case, '')


def check_gadgets(acc):
    from cirbo.synthesis.generation.generation import (
        add_if_then_else,
        add_pairwise_if_then_else,
        add_pairwise_xor,
        generate_if_then_else,
        generate_pairwise_if_then_else,
        generate_pairwise_xor,
    )

    # every generate_* call returns a fresh circuit
    import cirbo.synthesis.generation.arithmetics as A
    from cirbo.synthesis.generation.generation import generate_plus_one

    for nm, mk in (
        ('generate_if_then_else', generate_if_then_else),
        ('generate_pairwise_xor', lambda: generate_pairwise_xor(2)),
        ('generate_pairwise_if_then_else', lambda: generate_pairwise_if_then_else(2)),
        ('generate_plus_one', lambda: generate_plus_one(3, 4)),
        ('generate_sub_two_numbers', lambda: A.generate_sub_two_numbers(3, 2)),
        ('generate_div_mod', lambda: A.generate_div_mod(2)),
        ('generate_sqrt', lambda: A.generate_sqrt(4)),
        ('generate_equal', lambda: A.generate_equal(3, 5)),
    ):
        acc.states += 1
        acc.traces += 1
        arith.fresh_generator_check(acc, nm, mk)
    # generate_* forms
    c = generate_if_then_else()
    net = refmodel.abstract(c)
    tabs = net.tables()
    acc.states += 1
    acc.traces += 1
    acc.transitions += 1
    i, t, e = (tabs[l] for l in net.inputs)
    if len(net.outputs) != 1 or tabs[net.outputs[0]] != ((i & t) | (~i & e)) & 255:
        acc.violation('generate_if_then_else/wrong', {'fn': 'generate_if_then_else'}, '')
    for n in (1, 2, 3):
        acc.states += 2
        acc.traces += 2
        acc.transitions += 2
        c = generate_pairwise_xor(n)
        net = refmodel.abstract(c)
        tabs = net.tables()
        if len(net.inputs) != 2 * n or len(net.outputs) != n or any(
            tabs[net.outputs[k]] != tabs[net.inputs[k]] ^ tabs[net.inputs[n + k]] for k in range(n)
        ):
            acc.violation('generate_pairwise_xor/wrong', {'fn': 'generate_pairwise_xor', 'n': n}, '')
        c = generate_pairwise_if_then_else(n)
        net = refmodel.abstract(c)
        tabs = net.tables()
        mask = (1 << (1 << (3 * n))) - 1
        if len(net.inputs) != 3 * n or len(net.outputs) != n or any(
            tabs[net.outputs[k]] != ((tabs[net.inputs[k]] & tabs[net.inputs[n + k]]) | ((tabs[net.inputs[k]] ^ mask) & tabs[net.inputs[2 * n + k]]))
            for k in range(n)
        ):
            acc.violation('generate_pairwise_if_then_else/wrong', {'fn': 'generate_pairwise_if_then_else', 'n': n}, '')
    # add_* forms on hosts, operands over host nodes incl. internal gates and repeats
    hc, pool = arith.host2(3)
    for n in (1, 2):
        for opsel in itertools.product(pool[:5], repeat=2 * n):
            for add_outputs in (False, True):
                for give in (False, True):
                    c, _ = arith.host2(3)
                    x, y = list(opsel[:n]), list(opsel[n:])
                    rl = [f'r{k}' for k in range(n)] if give else None
                    case = {'fn': 'add_pairwise_xor', 'x': x, 'y': y, 'add_outputs': add_outputs, 'result_labels': give}
                    feats = {'add_outputs': add_outputs}
                    r = _run(acc, 'add_pairwise_xor', case, feats, c, lambda: add_pairwise_xor(c, x, y, result_labels=rl, add_outputs=add_outputs))
                    if r is None:
                        continue
                    before, res = r
                    if not _gadget_outputs(acc, 'add_pairwise_xor', case, feats, c, before, res, add_outputs, rl):
                        continue
                    net = refmodel.abstract(c)
                    tabs = net.tables()
                    if any(tabs[res[k]] != tabs[x[k]] ^ tabs[y[k]] for k in range(n)):
                        acc.violation('add_pairwise_xor/wrong', case, '', feats)
    # hosts whose labels resemble names a generator might derive from its operands
    from cirbo.core.circuit import Circuit

    for trip in itertools.permutations(['s', 'not_s', 't', 'new_s', 's_not', 'not_t'], 3):
        for give in (False, True):
            c = Circuit()
            c.add_inputs(['s', 'not_s', 't', 'new_s', 's_not', 'not_t'])
            case = {'fn': 'add_if_then_else', 'ops': list(trip), 'host': 'dual-rail labels', 'result_label': give}
            feats = {'host': 'dual-rail labels'}
            r = _run(acc, 'add_if_then_else', case, feats, c, lambda: add_if_then_else(c, *trip, result_label='r' if give else None))
            if r is None:
                continue
            before, res = r
            net = refmodel.abstract(c)
            tabs = net.tables()
            m_ = (1 << (1 << 6)) - 1
            i_, t_, e_ = (tabs[l] for l in trip)
            if res not in tabs or tabs[res] != ((i_ & t_) | ((i_ ^ m_) & e_)):
                acc.violation('add_if_then_else/wrong', case, '', feats)
    for opsel in itertools.product(pool[:6], repeat=3):
        for add_outputs in (False, True):
            for give in (False, True):
                c, _ = arith.host2(3)
                case = {'fn': 'add_if_then_else', 'ops': list(opsel), 'add_outputs': add_outputs, 'result_label': give}
                feats = {'add_outputs': add_outputs}
                r = _run(acc, 'add_if_then_else', case, feats, c, lambda: add_if_then_else(c, *opsel, result_label='r' if give else None, add_outputs=add_outputs))
                if r is None:
                    continue
                before, res = r
                if not _gadget_outputs(acc, 'add_if_then_else', case, feats, c, before, [res], add_outputs, ['r'] if give else None):
                    continue
                net = refmodel.abstract(c)
                tabs = net.tables()
                m = (1 << (1 << len(net.inputs))) - 1
                i, t, e = (tabs[l] for l in opsel)
                if tabs[res] != ((i & t) | ((i ^ m) & e)):
                    acc.violation('add_if_then_else/wrong', case, '', feats)
    for opsel in itertools.product(pool[:4], repeat=3):
        for add_outputs in (False, True):
            c, _ = arith.host2(3)
            i_, t_, e_ = [opsel[0], opsel[1]], [opsel[1], opsel[2]], [opsel[2], opsel[0]]
            case = {'fn': 'add_pairwise_if_then_else', 'if': i_, 'then': t_, 'else': e_, 'add_outputs': add_outputs}
            feats = {'add_outputs': add_outputs}
            r = _run(acc, 'add_pairwise_if_then_else', case, feats, c, lambda: add_pairwise_if_then_else(c, i_, t_, e_, add_outputs=add_outputs))
            if r is None:
                continue
            before, res = r
            if not _gadget_outputs(acc, 'add_pairwise_if_then_else', case, feats, c, before, res, add_outputs, None):
                continue
            net = refmodel.abstract(c)
            tabs = net.tables()
            m = (1 << (1 << len(net.inputs))) - 1
            if any(tabs[res[k]] != ((tabs[i_[k]] & tabs[t_[k]]) | ((tabs[i_[k]] ^ m) & tabs[e_[k]])) for k in range(2)):
                acc.violation('add_pairwise_if_then_else/wrong', case, '', feats)
    acc.sample({'fn': 'add_if_then_else', 'ops': ['e0', 'e0', 'h1'], 'add_outputs': False, 'result_label': True})


def _gadget_outputs(acc, fn, case, feats, c, before, res, add_outputs, rl):
    net0 = before[0]
    ok, net = arith.host_untouched(acc, fn, case, c, before, feats, allow_new_outputs=tuple(res) if add_outputs else ())
    if not ok:
        return False
    if rl is not None and list(res) != list(rl):
        acc.violation(f'{fn}/returned-labels', case, str(res), feats)
        return False
    want_out = list(net0.outputs) + (list(res) if add_outputs else [])
    if list(net.outputs) != want_out:
        acc.violation(f'{fn}/outputs', case, f'{net.outputs} expected {want_out}', feats)
        return False
    acc.outcome('c09', (fn, add_outputs))
    return True


def VARIANT_PRED(t, v):
    if v != 'deepcopy':
        return False
    k = t.get('kind')
    return k == 'gadgets' or (k == 'sub' and t['na'] + t['nb'] <= 4) or (k == 'div' and t['n'] <= 3) or (k == 'sqrt' and t['n'] <= 4) or (k == 'equal' and t['n'] <= 3) or (k == 'plus' and t['inp'] <= 2)


def plan(tier):
    q = tier == 'quick'
    t = [{'kind': 'gadgets'}]
    W = 6 if q else 8
    for na in range(1, W + 1):
        for nb in range(1, W + 1):
            t.append({'kind': 'sub', 'na': na, 'nb': nb})
    for n in range(1, (7 if q else 9) + 1):
        t.append({'kind': 'div', 'n': n})
    for n in range(1, (14 if q else 20) + 1):
        t.append({'kind': 'sqrt', 'n': n})
    for n in range(1, (7 if q else 9)):
        t.append({'kind': 'equal', 'n': n})
    for w in (12, 16, 31, 32, 33, 48, 49, 50, 53, 63, 64, 65, 100) if q else (12, 16, 24, 31, 32, 33, 47, 48, 49, 50, 52, 53, 54, 63, 64, 65, 100, 127, 128, 129, 200):
        t.append({'kind': 'equalwide', 'n': w})
    for n in range(1, (16 if q else 18) + 1):
        t.append({'kind': 'gen', 'which': 'sqrt', 'n': n})
    for n in range(1, (7 if q else 8) + 1):
        t.append({'kind': 'gen', 'which': 'div_mod', 'n': n})
    for inp, out in ((3, 700), (5, 1500), (8, 3000)) if q else ((3, 700), (4, 990), (4, 1010), (5, 1500), (8, 3000), (10, 7000)):
        t.append({'kind': 'pluswide', 'inp': inp, 'out': out})
    for w in (257, 300) if q else (255, 256, 257, 258, 300, 513):
        t.append({'kind': 'subwide', 'w': w})
    for n in (40,) if q else (40, 130):
        t.append({'kind': 'divwide', 'n': n})
    for inp in range(1, (7 if q else 9)):
        t.append({'kind': 'plus', 'inp': inp, 'outmax': 8 if q else 10})
    return t


def describe(tier):
    return {
        'rule': 'pluswide: add_plus_one / generate_plus_one with result widths 700..3000 (7000), all operand values; hosts ORI0/ORI1 (every asymmetric gate over every operand pair in one orientation only); gen: generate_sqrt n<=16 (18) and generate_div_mod n<=7 (8), ALL operand values; subwide/divwide: subtraction at widths 257/300 (thorough 255..513) equal and off by one, div_mod at 40 (130) bits, operands driven by a 12-input folded host, all 4096 host assignments; hosts SATW/DEC (every two-operand gate over the operand bits already present / n-ary decoys only) for <= 4 operand bits; sub: generate/add_sub_two_numbers and add_subtract_with_compare for all width pairs x endianness x hosts (H0 inputs, H1 '
        'non-input operands, and the live input list of the host as operand a); div_mod (incl. b=0), sqrt (odd and even n), equality gadget (every constant 0..2^(n+1); widths 12..100(200) over a stated alphabet: 10 constants around 0 / 2^(w-1) / 2^w x operand values {constant, every single-bit flip of it, 0, all ones}), plus-one '
        '(inp x out x endianness x add_outputs x result_labels given/omitted x H0/H1/H2), if-then-else and pairwise gadgets on a '
        'host with existing gates/outputs/blocks over every operand tuple incl. internal gates and repeats; all operand values; every generate_* is called, its result edited, and called again (fresh circuit each time). '
        'distinct = distinct configuration classes.',
        'bounds': {'quick': 'sub widths<=6, div_mod n<=7, sqrt n<=14, equal n<=6, plus-one inp<=6 out<=8',
                   'thorough': 'sub widths<=8, div_mod n<=9, sqrt n<=20, equal n<=8, plus-one inp<=8 out<=10'}[tier],
        'exhaustive': True,
        'assumptions': ['vmc.refmodel evaluator, Python integer arithmetic'],
    }


def probe():
    from vmc import boot
    from cirbo.synthesis.generation.arithmetics import generate_sub_two_numbers

    boot.uuid_counter.reset()
    return refmodel.abstract(generate_sub_two_numbers(2, 2)).to_json()


def check_generate_wrappers(acc, which, n, be):
    """generate_sqrt / generate_div_mod: the stand-alone circuits, all operand values (their operand bits are
    the circuit's inputs in declaration order)."""
    import cirbo.synthesis.generation.arithmetics as A

    case = {'fn': 'generate_' + which, 'n': n, 'big_endian': be}
    acc.states += 1
    acc.traces += 1
    acc.transitions += 1
    try:
        c = A.generate_sqrt(n, big_endian=be) if which == 'sqrt' else A.generate_div_mod(n, big_endian=be)
    except Exception as e:  # noqa: BLE001
        acc.violation(f'generate_{which}/raises-{type(e).__name__}', case, repr(e)[:200])
        return
    net = refmodel.abstract(c)
    k = n if which == 'sqrt' else 2 * n
    if len(net.inputs) != k or refmodel.wellformed(c, deep=False):
        acc.violation(f'generate_{which}/shape', case, f'{len(net.inputs)} inputs')
        return
    tabs = net.tables()
    rows = 1 << k
    if which == 'sqrt':
        if len(net.outputs) != (n + 1) // 2:
            acc.violation('generate_sqrt/result-width', case, f'{len(net.outputs)}')
            return
        va = arith.decode_rows(tabs, net.inputs, rows, be)
        got = arith.decode_rows(tabs, net.outputs, rows, be)
        for j in range(rows):
            if got[j] != math.isqrt(va[j]):
                acc.violation('generate_sqrt/wrong-root', case, f'a={va[j]} got {got[j]}')
                return
    else:
        if len(net.outputs) != 2 * n:
            acc.violation('generate_div_mod/result-width', case, f'{len(net.outputs)}')
            return
        va = arith.decode_rows(tabs, net.inputs[:n], rows, be)
        vb = arith.decode_rows(tabs, net.inputs[n:], rows, be)
        gd = arith.decode_rows(tabs, net.outputs[:n], rows, be)
        gm = arith.decode_rows(tabs, net.outputs[n:], rows, be)
        for j in range(rows):
            wd, wm = (va[j] // vb[j], va[j] % vb[j]) if vb[j] else (0, 0)
            if (gd[j], gm[j]) != (wd, wm):
                acc.violation('generate_div_mod/wrong-result', case, f'a={va[j]} b={vb[j]} got ({gd[j]},{gm[j]})', {'zero_divisor': vb[j] == 0})
                return
    acc.outcome('c09', ('generate_' + which, n, be))


def check_sub_wide(acc, w, be, compare, q=12):
    """Equal widths beyond 256 (and unequal ones around it): operands driven by a q-input folded host, all 2^q
    host assignments."""
    from vmc.props.c07 import folded_host

    for na, nb in ((w, w), (w, w - 1), (w - 1, w)):
        c, ops = folded_host(q, na + nb)
        check_sub(acc, na, nb, be, f'F{q}', space_variant(c), ops, compare)


def space_variant(c):
    from vmc import space

    return space.variant(c)


def run_task(task, acc):
    from vmc import boot

    boot.uuid_counter.reset()
    k = task['kind']
    if k == 'gadgets':
        return check_gadgets(acc)
    if k == 'sub':
        na, nb = task['na'], task['nb']
        for be in (False, True):
            check_generate_sub(acc, na, nb, be)
            for compare in (False, True):
                for htag, c, ops in _hosts(na + nb):
                    check_sub(acc, na, nb, be, htag, c, ops, compare)
                check_sub_live_inputs(acc, na, nb, be, compare)
        acc.sample({'fn': 'add_subtract_with_compare', 'na': na, 'nb': nb, 'big_endian': True, 'host': 'H1'})
    elif k == 'div':
        n = task['n']
        for be in (False, True):
            for htag, c, ops in _hosts(2 * n, ('H0', 'H1') if n <= 6 else ('H0',)):
                check_div_mod(acc, n, be, htag, c, ops)
        acc.sample({'fn': 'add_div_mod', 'n': n, 'big_endian': False, 'host': 'H0'})
    elif k == 'sqrt':
        n = task['n']
        for be in (False, True):
            for htag, c, ops in _hosts(n, ('H0', 'H1') if n <= 12 else ('H0',)):
                check_sqrt(acc, n, be, htag, c, ops)
        acc.sample({'fn': 'add_sqrt', 'n': n, 'big_endian': True, 'host': 'H0'})
    elif k == 'equal':
        n = task['n']
        for num in range(0, (1 << (n + 1)) + 1):
            for htag, c, ops in _hosts(n):
                check_equal(acc, n, num, htag, c, ops)
        acc.sample({'fn': 'add_equal', 'n': n, 'num': 1 << n, 'host': 'H0'})
    elif k == 'equalwide':
        check_equal_wide(acc, task['n'])
    elif k == 'pluswide':
        for be in (False, True):
            check_generate_plus_one(acc, task['inp'], task['out'], be)
            for add_outputs in (False, True):
                for htag, c, ops in _hosts(task['inp'], ('H1',)):
                    check_plus_one(acc, task['inp'], task['out'], be, add_outputs, False, htag, c, ops)
    elif k == 'gen':
        for be in (False, True):
            check_generate_wrappers(acc, task['which'], task['n'], be)
    elif k == 'subwide':
        for be in (False, True):
            for compare in (False, True):
                check_sub_wide(acc, task['w'], be, compare)
    elif k == 'divwide':
        from vmc.props.c07 import folded_host

        for be in (False, True):
            c, ops = folded_host(12, 2 * task['n'])
            check_div_mod(acc, task['n'], be, 'F12', space_variant(c), ops)
    elif k == 'plus':
        inp = task['inp']
        for out in range(1, task['outmax'] + 1):
            for be in (False, True):
                check_generate_plus_one(acc, inp, out, be)
                for add_outputs in (False, True):
                    for give in (False, True):
                        for htag, c, ops in _hosts(inp):
                            check_plus_one(acc, inp, out, be, add_outputs, give, htag, c, ops)
                        if inp <= 2:
                            hc, pool = arith.host2(3)
                            for tup in itertools.product(pool[:5], repeat=inp):
                                c2, _ = arith.host2(3)
                                check_plus_one(acc, inp, out, be, add_outputs, give, 'H2:' + ','.join(tup), c2, list(tup))
        acc.sample({'fn': 'add_plus_one', 'inp': inp, 'out': inp + 1, 'big_endian': False, 'add_outputs': False, 'result_labels': False, 'host': 'H1'})


def replay(case, acc):
    from vmc import boot

    boot.uuid_counter.reset()
    if 'task' in case:
        return run_task(case['task'], acc)
    fn = case['fn']

    def h(k):
        ht = case.get('host', 'H0')
        if ht.startswith('H2:'):
            c2, _ = arith.host2(3)
            return ht, c2, ht[3:].split(',')
        c, ops = _host(ht, k)
        return ht, c, ops

    if fn in ('add_sub_two_numbers', 'add_subtract_with_compare'):
        return check_sub(acc, case['na'], case['nb'], case['big_endian'], *h(case['na'] + case['nb']), compare=(fn != 'add_sub_two_numbers'))
    if fn == 'generate_sub_two_numbers':
        return check_generate_sub(acc, case['na'], case['nb'], case['big_endian'])
    if fn == 'add_div_mod':
        return check_div_mod(acc, case['n'], case['big_endian'], *h(2 * case['n']))
    if fn == 'add_sqrt':
        return check_sqrt(acc, case['n'], case['big_endian'], *h(case['n']))
    if fn == 'add_equal':
        return check_equal(acc, case['n'], case['num'], *h(case['n']))
    if fn == 'add_plus_one':
        return check_plus_one(acc, case['inp'], case['out'], case['big_endian'], case['add_outputs'], case['result_labels'], *h(case['inp']))
    if fn == 'generate_plus_one':
        return check_generate_plus_one(acc, case['inp'], case['out'], case['big_endian'])
    return check_gadgets(acc)
